//! Stand-in for names 0.10 `Generator`: `Default`, and `Iterator<Item = String>` whose `next()`
//! always yields `Some(name)`. The name is one of two fixed strings chosen nondeterministically
//! (name contents are never branched on by pushr).
pub struct Generator { _p: () }
impl Default for Generator {
    fn default() -> Self { Generator { _p: () } }
}
impl Iterator for Generator {
    type Item = String;
    fn next(&mut self) -> Option<String> {
        nondet::count_draw();
        if nondet::any_bool() { Some(String::from("rnd-a")) } else { Some(String::from("rnd-b")) }
    }
}
