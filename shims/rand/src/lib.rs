//! API-compatible stand-in for the part of rand 0.8 that pushr uses.
//! Every draw is an arbitrary value constrained only by rand's documented contract
//! (checked against the vendored rand-0.8.8 sources):
//!  * `gen_range(a..b)`   : panics "cannot sample empty range" iff !(a < b); result in [a, b)
//!  * `gen_range(a..=b)`  : panics iff !(a <= b); result in [a, b]
//!  * float ranges        : additionally panic "range overflow" when (b - a) is not finite, and (with
//!                          debug assertions, i.e. the dev profile) when a bound is not finite
//!  * `Uniform::from(a..b)`: panics "Uniform::new called with `low >= high`" iff !(a < b)
//!  * `gen::<f32>()` in [0,1); `gen::<i32>()`, `gen::<bool>()` arbitrary.
//! Rejection loops inside the real crate are replaced by their post-condition.
use std::ops::{Range, RangeInclusive};

pub struct ThreadRng { _p: () }
pub fn thread_rng() -> ThreadRng { ThreadRng { _p: () } }

pub trait RngCore {}
impl RngCore for ThreadRng {}

pub trait NondetValue: Sized + PartialOrd + Copy {
    fn any() -> Self;
    fn span_ok(_lo: Self, _hi: Self) -> bool { true }
    fn finite(self) -> bool { true }
    /// Some(lo) when [lo, hi) contains exactly one value (integers): the draw is then returned as a
    /// concrete value, which keeps CBMC's symbolic execution from forking on it. Exact, not a cut.
    fn single(_lo: Self, _hi: Self) -> Option<Self> { None }
}
impl NondetValue for i32 {
    fn any() -> Self { nondet::any_i32() }
    fn single(lo: Self, hi: Self) -> Option<Self> { if lo < hi && lo + 1 == hi { Some(lo) } else { None } }
}
impl NondetValue for u32 {
    fn any() -> Self { nondet::any_u32() }
    fn single(lo: Self, hi: Self) -> Option<Self> { if lo < hi && lo + 1 == hi { Some(lo) } else { None } }
}
impl NondetValue for usize {
    fn any() -> Self { nondet::any_usize() }
    fn single(lo: Self, hi: Self) -> Option<Self> { if lo < hi && lo + 1 == hi { Some(lo) } else { None } }
}
impl NondetValue for f32 {
    fn any() -> Self { nondet::any_f32() }
    fn span_ok(lo: Self, hi: Self) -> bool { (hi - lo).is_finite() }
    fn finite(self) -> bool { self.is_finite() }
}
impl NondetValue for f64 {
    fn any() -> Self { nondet::any_f64() }
    fn span_ok(lo: Self, hi: Self) -> bool { (hi - lo).is_finite() }
    fn finite(self) -> bool { self.is_finite() }
}

pub trait SampleRange<T> {
    fn sample_single(self) -> T;
}
impl<T: NondetValue> SampleRange<T> for Range<T> {
    fn sample_single(self) -> T {
        assert!(self.start < self.end, "cannot sample empty range");
        debug_assert!(self.start.finite() && self.end.finite(), "UniformSampler::sample_single called with a non-finite bound");
        assert!(T::span_ok(self.start, self.end), "UniformSampler::sample_single: range overflow");
        nondet::count_draw();
        if let Some(v) = T::single(self.start, self.end) {
            return v;
        }
        let x = T::any();
        nondet::assume(self.start <= x && x < self.end);
        x
    }
}
impl<T: NondetValue> SampleRange<T> for RangeInclusive<T> {
    fn sample_single(self) -> T {
        let (lo, hi) = (*self.start(), *self.end());
        assert!(lo <= hi, "cannot sample empty range");
        debug_assert!(lo.finite() && hi.finite(), "UniformSampler::sample_single_inclusive called with a non-finite bound");
        assert!(T::span_ok(lo, hi), "UniformSampler::sample_single_inclusive: range overflow");
        nondet::count_draw();
        let x = T::any();
        nondet::assume(lo <= x && x <= hi);
        x
    }
}

pub trait Rng: RngCore {
    fn gen_range<T, R: SampleRange<T>>(&mut self, range: R) -> T {
        range.sample_single()
    }
    fn gen<T>(&mut self) -> T
    where
        distributions::Standard: distributions::Distribution<T>,
        Self: Sized,
    {
        use distributions::Distribution;
        distributions::Standard.sample(self)
    }
}
impl<R: RngCore + ?Sized> Rng for R {}

pub fn random<T>() -> T
where
    distributions::Standard: distributions::Distribution<T>,
{
    use distributions::Distribution;
    distributions::Standard.sample(&mut thread_rng())
}

pub mod distributions {
    use super::{NondetValue, Rng};
    use std::ops::Range;

    pub trait Distribution<T> {
        fn sample<R: Rng + ?Sized>(&self, rng: &mut R) -> T;
    }

    #[derive(Clone, Copy, Debug)]
    pub struct Standard;

    impl Distribution<i32> for Standard {
        fn sample<R: Rng + ?Sized>(&self, _rng: &mut R) -> i32 { nondet::count_draw(); nondet::any_i32() }
    }
    impl Distribution<bool> for Standard {
        fn sample<R: Rng + ?Sized>(&self, _rng: &mut R) -> bool { nondet::count_draw(); nondet::any_bool() }
    }
    impl Distribution<f32> for Standard {
        fn sample<R: Rng + ?Sized>(&self, _rng: &mut R) -> f32 {
            nondet::count_draw();
            let x = nondet::any_f32();
            nondet::assume(x >= 0.0 && x < 1.0);
            x
        }
    }

    #[derive(Clone, Copy, Debug)]
    pub struct Uniform<T> { low: T, high: T }

    impl<T: NondetValue> Uniform<T> {
        pub fn new(low: T, high: T) -> Self {
            assert!(low < high, "Uniform::new called with `low >= high`");
            assert!(T::span_ok(low, high), "Uniform::new: range overflow");
            Uniform { low, high }
        }
    }
    impl<T: NondetValue> From<Range<T>> for Uniform<T> {
        fn from(r: Range<T>) -> Self { Uniform::new(r.start, r.end) }
    }
    impl<T: NondetValue> Distribution<T> for Uniform<T> {
        fn sample<R: Rng + ?Sized>(&self, _rng: &mut R) -> T {
            nondet::count_draw();
            if let Some(v) = T::single(self.low, self.high) {
                return v;
            }
            let x = T::any();
            nondet::assume(self.low <= x && x < self.high);
            x
        }
    }
}
