//! Nondeterministic value source shared by the rand / rand_distr / names shims.
//! Under Kani (`cfg(kani)`, also set by `cargo kani playback`) every draw is `kani::any()`
//! constrained by `kani::assume`; outside Kani there is no source of draws and the shim
//! panics loudly (the shims are only ever built through `cargo kani`).

#[cfg(kani)]
pub fn any_i32() -> i32 { kani::any() }
#[cfg(kani)]
pub fn any_u32() -> u32 { kani::any() }
#[cfg(kani)]
pub fn any_usize() -> usize { kani::any() }
#[cfg(kani)]
pub fn any_f32() -> f32 { kani::any() }
#[cfg(kani)]
pub fn any_f64() -> f64 { kani::any() }
#[cfg(kani)]
pub fn any_bool() -> bool { kani::any() }
#[cfg(kani)]
pub fn assume(c: bool) { kani::assume(c) }

#[cfg(not(kani))]
pub fn any_i32() -> i32 { panic!("nondet: built without kani") }
#[cfg(not(kani))]
pub fn any_u32() -> u32 { panic!("nondet: built without kani") }
#[cfg(not(kani))]
pub fn any_usize() -> usize { panic!("nondet: built without kani") }
#[cfg(not(kani))]
pub fn any_f32() -> f32 { panic!("nondet: built without kani") }
#[cfg(not(kani))]
pub fn any_f64() -> f64 { panic!("nondet: built without kani") }
#[cfg(not(kani))]
pub fn any_bool() -> bool { panic!("nondet: built without kani") }
#[cfg(not(kani))]
pub fn assume(c: bool) { if !c { panic!("nondet: assumption violated in native replay") } }

/// Number of draws taken so far (ghost counter; lets harnesses bound rejection loops).
static mut DRAWS: usize = 0;
static mut MAX_DRAWS: usize = usize::MAX;
/// Fairness cut for rejection loops in the code under test: executions that need more than `n` draws
/// are outside the explored space (a draw that is rejected forever is not a finding).
pub fn set_max_draws(n: usize) { unsafe { MAX_DRAWS = n; DRAWS = 0; } }
pub fn count_draw() { unsafe { assume(DRAWS < MAX_DRAWS); DRAWS += 1; } }
pub fn draws() -> usize { unsafe { DRAWS } }
