//! Nondeterministic value source shared by the rand / rand_distr / names shims.
//! Under Kani (`cfg(kani)`, also set by `cargo kani playback`) every draw is `kani::any()`
//! constrained by `kani::assume`; outside Kani there is no source of draws and the shim
//! panics loudly (the shims are only ever built through `cargo kani`).

#[cfg(kani)]
pub fn any_i32() -> i32 { kani::any() }
#[cfg(kani)]
pub fn any_u32() -> u32 { kani::any() }
#[cfg(kani)]
pub fn any_usize() -> usize { kani::any() }
#[cfg(kani)]
pub fn any_f32() -> f32 { kani::any() }
#[cfg(kani)]
pub fn any_f64() -> f64 { kani::any() }
#[cfg(kani)]
pub fn any_bool() -> bool { kani::any() }
#[cfg(kani)]
pub fn assume(c: bool) { kani::assume(c) }

#[cfg(not(kani))]
pub fn any_i32() -> i32 { panic!("nondet: built without kani") }
#[cfg(not(kani))]
pub fn any_u32() -> u32 { panic!("nondet: built without kani") }
#[cfg(not(kani))]
pub fn any_usize() -> usize { panic!("nondet: built without kani") }
#[cfg(not(kani))]
pub fn any_f32() -> f32 { panic!("nondet: built without kani") }
#[cfg(not(kani))]
pub fn any_f64() -> f64 { panic!("nondet: built without kani") }
#[cfg(not(kani))]
pub fn any_bool() -> bool { panic!("nondet: built without kani") }
#[cfg(not(kani))]
pub fn assume(c: bool) { if !c { panic!("nondet: assumption violated in native replay") } }

/// Number of draws taken so far (ghost counter; lets harnesses bound rejection loops).
// Kani 0.68 merges a `static mut` with constants of identical initial bytes: start from unique magics.
const MAGIC_D: usize = 0x5EED_0000_0001_0101;
const MAGIC_M: usize = 0x5EED_0000_0002_0201;
static mut DRAWS: usize = MAGIC_D;
static mut MAX_DRAWS: usize = MAGIC_M;
/// Fairness cut for rejection loops in the code under test: executions that need more than `n` draws
/// are outside the explored space (a draw that is rejected forever is not a finding).
pub fn set_max_draws(n: usize) { unsafe { MAX_DRAWS = MAGIC_M + 1 + n; DRAWS = MAGIC_D; } }
pub fn count_draw() { unsafe { assume(MAX_DRAWS == MAGIC_M || DRAWS - MAGIC_D < MAX_DRAWS - MAGIC_M - 1); DRAWS += 1; } }
pub fn draws() -> usize { unsafe { DRAWS - MAGIC_D } }
