//! Stand-in for rand_distr 0.4.3 `Normal` (the only item pushr uses).
//! Contract (rand_distr-0.4.3/src/normal.rs): `Normal::new(mean, std_dev)` returns
//! `Err(Error::BadVariance)` iff `!std_dev.is_finite()`; otherwise `sample` returns
//! `mean + std_dev * z` for a standard-normal z, i.e. an arbitrary f32 (NaN if mean is NaN).
pub use rand::distributions::Distribution;
use rand::Rng;

#[derive(Clone, Copy, Debug, PartialEq, Eq)]
pub enum NormalError { MeanTooSmall, BadVariance }
impl std::fmt::Display for NormalError {
    fn fmt(&self, f: &mut std::fmt::Formatter<'_>) -> std::fmt::Result { f.write_str("normal error") }
}

#[derive(Clone, Copy, Debug)]
pub struct Normal<F> { mean: F, std_dev: F }

impl Normal<f32> {
    pub fn new(mean: f32, std_dev: f32) -> Result<Normal<f32>, NormalError> {
        if !std_dev.is_finite() {
            return Err(NormalError::BadVariance);
        }
        Ok(Normal { mean, std_dev })
    }
    pub fn mean(&self) -> f32 { self.mean }
    pub fn std_dev(&self) -> f32 { self.std_dev }
}
impl Distribution<f32> for Normal<f32> {
    fn sample<R: Rng + ?Sized>(&self, _rng: &mut R) -> f32 {
        nondet::count_draw();
        nondet::any_f32()
    }
}
