//! C13 — random value generators and *.RAND instructions respect their documented bounds.
//! Every draw is a free variable constrained only by rand's documented contract (shims/rand), so
//! "for every draw" is decided by the solver. Sizes are enumerated concretely (a symbolic size is a
//! symbolic allocation), all other parameters are arbitrary.
use crate::state::*;
use pushr::push::random::CodeGenerator;

const RS: &str = "std::hash::RandomState::new";

fn cfg_state() -> pushr::push::state::PushState {
    build(&SHAPE0)
}

/// random_integer: Some(x) => min <= x < max; None exactly when !(min < max); never a panic.
#[kani::proof]
#[kani::unwind(4)]
#[kani::stub(std::hash::RandomState::new, crate::stubs::random_state_new)]
pub fn c13_random_integer() {
    let st = cfg_state();
    let (lo, hi) = (st.configuration.min_random_integer, st.configuration.max_random_integer);
    let r = CodeGenerator::random_integer(&st);
    match r {
        Some(x) => {
            assert!(lo < hi, "value produced although min >= max");
            assert!(lo <= x && x < hi, "INTEGER.RAND value outside [min, max)");
        }
        None => assert!(!(lo < hi), "no value although min < max"),
    }
    kani::cover!(r.is_some(), "some");
    std::mem::forget(st);
}

/// random_float: for min < max a value inside [min, max); otherwise nothing; never a panic.
#[kani::proof]
#[kani::unwind(4)]
#[kani::stub(std::hash::RandomState::new, crate::stubs::random_state_new)]
pub fn c13_random_float() {
    let st = cfg_state();
    let (lo, hi) = (st.configuration.min_random_float, st.configuration.max_random_float);
    let r = CodeGenerator::random_float(&st);
    match r {
        Some(x) => {
            assert!(lo < hi, "value produced although min >= max");
            assert!(lo <= x && x < hi, "FLOAT.RAND value outside [min, max)");
        }
        None => assert!(!(lo < hi) || !(hi - lo).is_finite() || !lo.is_finite() || !hi.is_finite(), "no value although min < max (finite span)"),
    }
    kani::cover!(r.is_some(), "some");
    std::mem::forget(st);
}

fn int_vector(size: i32) {
    let lo: i32 = kani::any();
    let hi: i32 = kani::any();
    let r = CodeGenerator::random_int_vector(size, lo, hi);
    match r {
        Some(v) => {
            assert!(size >= 0 && hi > lo, "vector produced from invalid parameters");
            assert!(v.values.len() == size as usize, "INTVECTOR.RAND length differs from the request");
            let mut i = 0;
            while i < v.values.len() {
                assert!(lo <= v.values[i] && v.values[i] < hi, "INTVECTOR.RAND element outside [min, max)");
                i += 1;
            }
            std::mem::forget(v);
        }
        None => assert!(size < 0 || hi <= lo, "no vector although the parameters are valid"),
    }
}

fn float_vector(size: i32) {
    let mean: f32 = kani::any();
    let sd: f32 = kani::any();
    let r = CodeGenerator::random_float_vector(size, mean, sd);
    match r {
        Some(v) => {
            assert!(size >= 0 && sd >= 0.0 && sd.is_finite(), "vector produced from invalid parameters");
            assert!(v.values.len() == size as usize, "FLOATVECTOR.RAND length differs from the request");
            std::mem::forget(v);
        }
        None => assert!(size < 0 || !(sd >= 0.0) || !sd.is_finite(), "no vector although the parameters are valid"),
    }
}

fn bool_vector(size: i32) {
    let s: f32 = kani::any();
    nondet::set_max_draws(if size < 0 { 2 } else { size as usize + 2 });
    let r = CodeGenerator::random_bool_vector(size, s);
    match r {
        Some(v) => {
            assert!(size >= 0 && s >= 0.0 && s <= 1.0, "vector produced from invalid parameters (size < 0, sparsity outside [0,1] or NaN)");
            assert!(v.values.len() == size as usize, "BOOLVECTOR.RAND length differs from the request");
            let mut cnt = 0;
            let mut i = 0;
            while i < v.values.len() {
                if v.values[i] {
                    cnt += 1;
                }
                i += 1;
            }
            // documented rounding (comments of random_bool_vector): the default bit is FALSE unless more
            // than half of the bits should be active; the share of non-default bits, min(s, 1-s), is
            // rounded to two decimals and the product with the length is truncated to whole bits
            let share = (100.0 * f32::min(s, 1.0 - s)).round() / 100.0;
            let flipped = (share * size as f32) as i32;
            let want = if s > 0.5 { size - flipped } else { flipped };
            assert!(cnt == want, "number of TRUE bits is not the sparsity share of the length (documented rounding)");
            std::mem::forget(v);
        }
        None => assert!(size < 0 || !(s >= 0.0 && s <= 1.0), "no vector although the parameters are valid"),
    }
}

macro_rules! sized {
    ($name:ident, $f:ident, $size:expr, $unwind:expr) => {
        #[kani::proof]
        #[kani::unwind($unwind)]
        pub fn $name() {
            $f($size);
            kani::cover!(true, "reached end");
        }
    };
}
sized!(c13_int_vector_neg, int_vector, -1, 4);
sized!(c13_int_vector_0, int_vector, 0, 4);
sized!(c13_int_vector_1, int_vector, 1, 4);
sized!(c13_int_vector_2, int_vector, 2, 5);
sized!(c13_int_vector_3, int_vector, 3, 6);
sized!(c13_int_vector_4, int_vector, 4, 7);
sized!(c13_float_vector_neg, float_vector, -1, 4);
sized!(c13_float_vector_0, float_vector, 0, 4);
sized!(c13_float_vector_1, float_vector, 1, 4);
sized!(c13_float_vector_2, float_vector, 2, 5);
sized!(c13_float_vector_3, float_vector, 3, 6);
sized!(c13_float_vector_4, float_vector, 4, 7);
sized!(c13_bool_vector_neg, bool_vector, -1, 4);
sized!(c13_bool_vector_0, bool_vector, 0, 4);
sized!(c13_bool_vector_1, bool_vector, 1, 5);
sized!(c13_bool_vector_2, bool_vector, 2, 6);
sized!(c13_bool_vector_3, bool_vector, 3, 7);
sized!(c13_bool_vector_4, bool_vector, 4, 8);

/// Every position of a BOOLVECTOR.RAND result must be able to become TRUE: existential obligation,
/// decided as a cover property (a draw sequence must exist). Reported as a violation when the
/// solver proves that no draw sequence sets the position.
fn bool_vector_reach(size: i32, pos: usize) {
    let s: f32 = kani::any();
    kani::assume(s > 0.2 && s <= 0.5);
    nondet::set_max_draws(if size < 0 { 2 } else { size as usize + 2 });
    let r = CodeGenerator::random_bool_vector(size, s);
    if let Some(v) = r {
        kani::cover!(v.values.len() > pos && v.values[pos], "OBLIGATION: this position can become TRUE");
        std::mem::forget(v);
    }
}
macro_rules! reach {
    ($name:ident, $size:expr, $pos:expr) => {
        #[kani::proof]
        #[kani::unwind(8)]
        pub fn $name() {
            bool_vector_reach($size, $pos);
        }
    };
}
reach!(c13_bool_vector_reach_s3_p0, 3, 0);
reach!(c13_bool_vector_reach_s3_p1, 3, 1);
reach!(c13_bool_vector_reach_s3_p2, 3, 2);
reach!(c13_bool_vector_reach_s4_p3, 4, 3);
reach!(c13_bool_vector_reach_s2_p1, 2, 1);

// ---- the *.RAND instructions, dispatched by name through the real registry ----------------------
use crate::gen::registry as reg;
use crate::reg_harness;

fn exec(ins: &mut pushr::push::instructions::Instruction, st: &mut pushr::push::state::PushState) {
    let cache = icache();
    (ins.execute)(st, &cache);
    std::mem::forget(cache);
}

reg_harness!(c13_instr_integer_rand, 10, {
    let mut ins = reg::fetch_INTEGER_RAND();
    let mut st = build(&Shape { ni: 1, nf: 1, nb: 1, ..SHAPE0 });
    let before = snap(&st);
    exec(&mut ins, &mut st);
    let got = snap(&st);
    let (lo, hi) = (st.configuration.min_random_integer, st.configuration.max_random_integer);
    let mut want = before;
    if lo < hi {
        assert!(got.int.len == before.int.len + 1, "INTEGER.RAND must push exactly one INTEGER when min < max");
        let x = got.int.a[got.int.len - 1];
        assert!(lo <= x && x < hi, "INTEGER.RAND value outside the configured [min, max)");
        want.int.push(x);
    }
    assert_snap_eq(&got, &want);
    std::mem::forget(st);
    std::mem::forget(ins);
});

reg_harness!(c13_instr_float_rand, 10, {
    let mut ins = reg::fetch_FLOAT_RAND();
    let mut st = build(&Shape { ni: 1, nf: 1, nb: 1, ..SHAPE0 });
    let (lo, hi) = (st.configuration.min_random_float, st.configuration.max_random_float);
    // span overflow / infinite bounds are covered by c13_random_float
    kani::assume(lo.is_finite() && hi.is_finite() && (hi - lo).is_finite());
    let before = snap(&st);
    exec(&mut ins, &mut st);
    let got = snap(&st);
    let mut want = before;
    if lo < hi {
        assert!(got.flt.len == before.flt.len + 1, "FLOAT.RAND must push exactly one FLOAT when min < max");
        let x = got.flt.a[got.flt.len - 1];
        assert!(lo <= x && x < hi, "FLOAT.RAND value outside the configured [min, max)");
        want.flt.push(x);
    }
    assert_snap_eq(&got, &want);
    std::mem::forget(st);
    std::mem::forget(ins);
});

reg_harness!(c13_instr_boolean_rand, 10, {
    let mut ins = reg::fetch_BOOLEAN_RAND();
    let mut st = build(&Shape { ni: 1, nf: 1, nb: 1, ..SHAPE0 });
    let before = snap(&st);
    exec(&mut ins, &mut st);
    let got = snap(&st);
    let mut want = before;
    assert!(got.boo.len == before.boo.len + 1, "BOOLEAN.RAND must push exactly one BOOLEAN");
    want.boo.push(got.boo.a[got.boo.len - 1]);
    assert_snap_eq(&got, &want);
    kani::cover!(got.boo.a[got.boo.len - 1], "TRUE reachable");
    kani::cover!(!got.boo.a[got.boo.len - 1], "FALSE reachable");
    std::mem::forget(st);
    std::mem::forget(ins);
});

/// INTVECTOR.RAND: size (top), max, min from the INTEGER stack in that order.
fn instr_int_vector_rand(size: i32) {
    let mut ins = reg::fetch_INTVECTOR_RAND();
    let mut st = build(&Shape { ni: 3, niv: 1, ivl: [1, 1, 1], ..SHAPE0 });
    *st.int_stack.get_mut(0).unwrap() = size;
    let hi = *st.int_stack.get(1).unwrap();
    let lo = *st.int_stack.get(2).unwrap();
    let before = snap(&st);
    exec(&mut ins, &mut st);
    let got = snap(&st);
    let mut want = before;
    want.int.len = 0;
    if size >= 0 && hi > lo {
        assert!(got.ivec.len == before.ivec.len + 1, "INTVECTOR.RAND must push one vector for valid parameters");
        let v = got.ivec.a[got.ivec.len - 1];
        assert!(v.len == size as usize, "INTVECTOR.RAND length differs from the request");
        let mut i = 0;
        while i < NL {
            if i < v.len {
                assert!(lo <= v.a[i] && v.a[i] < hi, "INTVECTOR.RAND element outside [min, max)");
            }
            i += 1;
        }
        want.ivec.push(v);
    }
    assert_snap_eq(&got, &want);
    std::mem::forget(st);
    std::mem::forget(ins);
}
reg_harness!(c13_instr_int_vector_rand_neg, 10, { instr_int_vector_rand(-1); kani::cover!(true, "reached end"); });
reg_harness!(c13_instr_int_vector_rand_0, 10, { instr_int_vector_rand(0); kani::cover!(true, "reached end"); });
reg_harness!(c13_instr_int_vector_rand_2, 10, { instr_int_vector_rand(2); kani::cover!(true, "reached end"); });

/// FLOATVECTOR.RAND: size from INTEGER; mean = top FLOAT, standard deviation = second FLOAT.
fn instr_float_vector_rand(size: i32) {
    let mut ins = reg::fetch_FLOATVECTOR_RAND();
    let mut st = build(&Shape { ni: 1, nf: 2, nfv: 1, fvl: [1, 1, 1], ..SHAPE0 });
    *st.int_stack.get_mut(0).unwrap() = size;
    let sd = *st.float_stack.get(1).unwrap();
    let before = snap(&st);
    exec(&mut ins, &mut st);
    let got = snap(&st);
    let mut want = before;
    want.int.len = 0;
    want.flt.len = 0;
    if size >= 0 && sd >= 0.0 && sd.is_finite() {
        assert!(got.fvec.len == before.fvec.len + 1, "FLOATVECTOR.RAND must push one vector for valid parameters");
        let v = got.fvec.a[got.fvec.len - 1];
        assert!(v.len == size as usize, "FLOATVECTOR.RAND length differs from the request");
        want.fvec.push(v);
    }
    assert_snap_eq(&got, &want);
    std::mem::forget(st);
    std::mem::forget(ins);
}
reg_harness!(c13_instr_float_vector_rand_neg, 10, { instr_float_vector_rand(-1); kani::cover!(true, "reached end"); });
reg_harness!(c13_instr_float_vector_rand_0, 10, { instr_float_vector_rand(0); kani::cover!(true, "reached end"); });
reg_harness!(c13_instr_float_vector_rand_2, 10, { instr_float_vector_rand(2); kani::cover!(true, "reached end"); });

/// BOOLVECTOR.RAND: size from INTEGER, sparsity from FLOAT.
fn instr_bool_vector_rand(size: i32) {
    let mut ins = reg::fetch_BOOLVECTOR_RAND();
    let mut st = build(&Shape { ni: 1, nf: 1, nbv: 1, bvl: [1, 1, 1], ..SHAPE0 });
    *st.int_stack.get_mut(0).unwrap() = size;
    let s = *st.float_stack.get(0).unwrap();
    nondet::set_max_draws(if size < 0 { 2 } else { size as usize + 2 });
    let before = snap(&st);
    exec(&mut ins, &mut st);
    let got = snap(&st);
    let mut want = before;
    want.int.len = 0;
    want.flt.len = 0;
    if size >= 0 && s >= 0.0 && s <= 1.0 {
        assert!(got.bvec.len == before.bvec.len + 1, "BOOLVECTOR.RAND must push one vector for valid parameters");
        let v = got.bvec.a[got.bvec.len - 1];
        assert!(v.len == size as usize, "BOOLVECTOR.RAND length differs from the request");
        want.bvec.push(v);
    }
    assert_snap_eq(&got, &want);
    std::mem::forget(st);
    std::mem::forget(ins);
}
reg_harness!(c13_instr_bool_vector_rand_neg, 10, { instr_bool_vector_rand(-1); kani::cover!(true, "reached end"); });
reg_harness!(c13_instr_bool_vector_rand_0, 10, { instr_bool_vector_rand(0); kani::cover!(true, "reached end"); });
reg_harness!(c13_instr_bool_vector_rand_3, 10, { instr_bool_vector_rand(3); kani::cover!(true, "reached end"); });
