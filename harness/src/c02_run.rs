//! C02 — the run loop honours step, growth and time limits and reports the right outcome.
//!
//! Real programs cannot be stepped under CBMC (Item clone/drop), so what is decided here is the
//! accounting code of the real `PushInterpreter::run` against EVERY possible behaviour of a step:
//! `step` is replaced by a nondeterministic stand-in (grows the state by an arbitrary amount, returns
//! an arbitrary completion flag, logs what it did) and the clock by arbitrary non-decreasing instants.
use crate::gen::bounds::{RUN_G, RUN_L};
use crate::state::*;
use pushr::push::instructions::{InstructionCache, InstructionSet};
use pushr::push::interpreter::{PushInterpreter, PushInterpreterState};
use pushr::push::state::PushState;
use std::time::{Duration, Instant};

const MAXC: usize = 8;
// ghost logs. Kani 0.68 merges a `static mut` with constants of identical initial bytes (see stubs.rs):
// every static starts from a unique non-trivial pattern; the harness resets them before use.
static mut CALLS: usize = 0x5EED_0000_0003_0101;
static mut DONE: [usize; MAXC] = [0x5EED_0000_0003_0201; MAXC];
static mut GREW: [usize; MAXC] = [0x5EED_0000_0003_0301; MAXC];
static mut NCLOCK: usize = 0x5EED_0000_0003_0401;
static mut CLOCK: [u64; MAXC] = [0x5EED_0000_0003_0501; MAXC];
static mut NOW_MS: u64 = 0x5EED_0000_0003_0601;

fn reset_logs() {
    unsafe {
        CALLS = 0;
        NCLOCK = 0;
        NOW_MS = 0;
        let mut i = 0;
        while i < MAXC {
            DONE[i] = 0;
            GREW[i] = 0;
            CLOCK[i] = 0;
            i += 1;
        }
    }
}

/// stand-in for one interpreter step: arbitrary growth of the INTEGER stack, arbitrary completion
pub fn step_stub(st: &mut PushState, _is: &mut InstructionSet, _ic: &InstructionCache) -> bool {
    unsafe {
        let c = CALLS;
        assert!(c < MAXC, "more step calls than the harness bound can record");
        let k: usize = kani::any();
        kani::assume(k <= RUN_G + 2);
        let mut i = 0;
        while i < RUN_G + 2 {
            if i < k {
                st.int_stack.push(0);
            }
            i += 1;
        }
        let done: bool = kani::any();
        GREW[c] = k;
        DONE[c] = done as usize;
        CALLS = c + 1;
        done
    }
}

pub fn now_stub() -> Instant {
    unsafe { std::mem::zeroed() }
}

/// arbitrary non-decreasing elapsed time, logged per call
pub fn elapsed_stub(_s: &Instant) -> Duration {
    unsafe {
        let d: u64 = kani::any();
        kani::assume(d <= 1_000_000);
        NOW_MS += d;
        assert!(NCLOCK < MAXC, "more clock reads than the harness bound can record");
        CLOCK[NCLOCK] = NOW_MS;
        NCLOCK += 1;
        Duration::from_millis(NOW_MS)
    }
}

pub fn cache_stub(_s: &InstructionSet) -> InstructionCache {
    InstructionCache::new(Vec::new())
}

/// One harness per concrete eval_push_limit (the other limits stay symbolic).
fn run_accounting(limit: i32) {
    if limit > RUN_L as i32 {
        return;
    }
    reset_logs();
    let mut st = build(&Shape { ni: 1, nf: 1, ..SHAPE0 });
    let cap: usize = kani::any();
    kani::assume(cap <= RUN_G);
    let tl: u64 = kani::any();
    kani::assume(tl <= 2_000_000);
    st.configuration.eval_push_limit = limit;
    st.configuration.growth_cap = cap;
    st.configuration.eval_time_limit = tl;
    let size0 = st.size();
    let ints0 = st.int_stack.size();
    let mut iset = InstructionSet::new();
    let r = PushInterpreter::run(&mut st, &mut iset);
    let (n, nclock) = unsafe { (CALLS, NCLOCK) };

    // never more than eval_push_limit + 1 steps
    assert!(n as i64 <= limit as i64 + 1, "more than eval_push_limit + 1 steps executed");
    // the state is touched only through the steps, and the CODE stack got a copy of the (empty) program
    let mut total = 0;
    let mut c = 0;
    while c < MAXC {
        if c < n {
            total += unsafe { GREW[c] };
        }
        c += 1;
    }
    assert!(st.int_stack.size() == ints0 + total && st.size() == size0 + total, "run changed the state outside the steps");
    assert!(st.code_stack.size() == 0 && st.exec_stack.size() == 0, "run fabricated CODE/EXEC items");
    // a completed step ends the run at once, with NoErrors; no other step may report completion
    c = 0;
    while c < MAXC {
        if c + 1 < n {
            assert!(unsafe { DONE[c] } == 0, "a step reported completion but the run continued");
            assert!(unsafe { GREW[c] } <= cap, "a step exceeded the growth cap but the run continued");
        }
        if c < n {
            assert!(unsafe { CLOCK[c] } <= tl, "a step was executed after the time limit had passed");
        }
        c += 1;
    }
    let last_done = n >= 1 && unsafe { DONE[n - 1] } != 0;
    let last_grew = if n >= 1 { unsafe { GREW[n - 1] } } else { 0 };
    match r {
        PushInterpreterState::NoErrors => {
            assert!(last_done, "NoErrors although the last step did not report an empty EXEC stack");
        }
        PushInterpreterState::StepLimitExceeded => {
            assert!(!last_done, "StepLimitExceeded although the program had completed");
            assert!(n as i64 == limit as i64 + 1, "StepLimitExceeded before the step budget was used up");
            assert!(last_grew <= cap, "StepLimitExceeded although the last step exceeded the growth cap");
        }
        PushInterpreterState::GrowthCapExceeded => {
            assert!(n >= 1 && !last_done && last_grew > cap, "GrowthCapExceeded although no step grew the state by more than growth_cap");
        }
        PushInterpreterState::TimeLimitExceeded => {
            assert!(!last_done, "TimeLimitExceeded although the program had completed");
            assert!(nclock == n + 1 && unsafe { CLOCK[n] } > tl, "TimeLimitExceeded although the observed time had not passed the limit");
            assert!(last_grew <= cap, "TimeLimitExceeded although the last step exceeded the growth cap");
        }
    }
    if last_done {
        assert!(r == PushInterpreterState::NoErrors, "the program completed but the outcome is not NoErrors");
    } else if n >= 1 && last_grew > cap {
        assert!(r == PushInterpreterState::GrowthCapExceeded, "a step exceeded the growth cap but the outcome is not GrowthCapExceeded");
    }
    std::mem::forget(st);
    std::mem::forget(iset);
}

macro_rules! acc {
    ($name:ident, $limit:expr) => {
        #[kani::proof]
        #[kani::unwind(9)]
        #[kani::stub(std::hash::RandomState::new, crate::stubs::random_state_new)]
        #[kani::stub(pushr::push::interpreter::PushInterpreter::step, step_stub)]
        #[kani::stub(std::time::Instant::now, now_stub)]
        #[kani::stub(std::time::Instant::elapsed, elapsed_stub)]
        #[kani::stub(pushr::push::instructions::InstructionSet::cache, cache_stub)]
        pub fn $name() {
            run_accounting($limit);
            kani::cover!(true, "reached end");
        }
    };
}
acc!(c02_run_accounting_limit_m1, -1);
acc!(c02_run_accounting_limit_0, 0);
acc!(c02_run_accounting_limit_1, 1);
acc!(c02_run_accounting_limit_2, 2);
acc!(c02_run_accounting_limit_3, 3);
acc!(c02_run_accounting_limit_4, 4);

/// A step on an empty EXEC stack reports completion and changes nothing (real `step`).
#[kani::proof]
#[kani::unwind(10)]
#[kani::stub(std::hash::RandomState::new, crate::stubs::random_state_new)]
pub fn c02_step_on_empty_exec() {
    let mut st = build(&Shape { ni: 2, nf: 1, nb: 1, nn: 1, nc: 1, nx: 1, nbv: 1, niv: 1, nfv: 1, nin: 1, nout: 1, ..SHAPE0 });
    let before = snap(&st);
    let mut iset = InstructionSet::new();
    let ic = icache();
    let done = PushInterpreter::step(&mut st, &mut iset, &ic);
    assert!(done, "step on an empty EXEC stack must report completion");
    let after = snap(&st);
    assert_snap_eq(&after, &before);
    kani::cover!(true, "reached end");
    std::mem::forget(st);
    std::mem::forget(iset);
    std::mem::forget(ic);
}

/// run on an empty EXEC stack: NoErrors after exactly one (real) step, nothing changed.
#[kani::proof]
#[kani::unwind(10)]
#[kani::stub(std::hash::RandomState::new, crate::stubs::random_state_new)]
#[kani::stub(std::time::Instant::now, now_stub)]
#[kani::stub(std::time::Instant::elapsed, elapsed_stub)]
#[kani::stub(pushr::push::instructions::InstructionSet::cache, cache_stub)]
pub fn c02_run_empty_program() {
    reset_logs();
    let mut st = build(&Shape { ni: 2, nf: 1, nb: 1, ..SHAPE0 });
    let limit: i32 = kani::any();
    kani::assume(limit >= 0);
    st.configuration.eval_push_limit = limit;
    st.configuration.eval_time_limit = 2_000_000;
    let before = snap(&st);
    let mut iset = InstructionSet::new();
    let r = PushInterpreter::run(&mut st, &mut iset);
    assert!(r == PushInterpreterState::NoErrors, "empty program must end with NoErrors");
    let after = snap(&st);
    assert_snap_eq(&after, &before);
    kani::cover!(true, "reached end");
    std::mem::forget(st);
    std::mem::forget(iset);
}

/// The growth cap counts stack entries: `PushState::size()` is the sum of the nine main stack depths,
/// whatever the items contain (INDEX, INPUT, OUTPUT and GRAPH are not counted). `Item::size` is replaced
/// by an arbitrary value: size() must not depend on the number of points inside CODE/EXEC items.
pub fn item_size_any(_i: &pushr::push::item::Item) -> usize {
    kani::any()
}

#[kani::proof]
#[kani::unwind(10)]
#[kani::stub(std::hash::RandomState::new, crate::stubs::random_state_new)]
#[kani::stub(pushr::push::item::Item::size, item_size_any)]
pub fn c02_state_size_is_sum_of_stack_depths() {
    use pushr::push::item::Item;
    let mut st = build(&Shape { ni: 2, nf: 1, nb: 1, nn: 1, nc: 1, ne: 1, nx: 1, nbv: 1, niv: 1, nfv: 1, nin: 1, nout: 1, ..SHAPE0 });
    st.code_stack.push(Item::list(vec![int_atom(), int_atom()]));
    st.exec_stack.push(Item::list(vec![int_atom()]));
    assert!(st.size() == 2 + 1 + 1 + 1 + 2 + 2 + 1 + 1 + 1, "PushState::size() is not the sum of the nine main stack depths");
    kani::cover!(true, "reached end");
    std::mem::forget(st);
}
