//! Brute-force reference for the index-topology neighbourhood (C20), integer geometry:
//! edge = smallest e with e^d >= n; coordinates = base-e digits; j is a neighbour of i iff
//! sqrt(sum_k (ci_k - cj_k)^2) <= r, evaluated on the exact integer squared distance.

pub fn ipow(e: usize, d: usize) -> usize {
    let mut r = 1usize;
    let mut k = 0;
    while k < d {
        r = r.saturating_mul(e);
        k += 1;
    }
    r
}

pub fn ref_edge(n: usize, d: usize) -> usize {
    let mut e = 1;
    while e < 64 {
        if ipow(e, d) >= n {
            return e;
        }
        e += 1;
    }
    e
}

/// squared Euclidean distance between the coordinate vectors of i and j (d dimensions, edge e)
pub fn ref_d2(i: usize, j: usize, e: usize, d: usize) -> u32 {
    let mut a = i;
    let mut b = j;
    let mut s: u32 = 0;
    let mut k = 0;
    while k < d {
        let da = (a % e) as i32;
        let db = (b % e) as i32;
        s += ((da - db) * (da - db)) as u32;
        a /= e;
        b /= e;
        k += 1;
    }
    s
}

pub fn ref_member(n: usize, d: usize, i: usize, j: usize, r: f32) -> bool {
    let e = ref_edge(n, d);
    (ref_d2(i, j, e, d) as f32).sqrt() <= r
}
