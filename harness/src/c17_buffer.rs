//! C17 — PushBuffer<i32> behaves like a bounded sequence (both kinds, capacity 1..BUF_CAP).
//!
//! (1) one-operation obligations from EVERY valid internal representation: the private cursors are
//!     reached by driving the buffer with `cap` pushes, `e` forced pushes and `cap - l` pops
//!     (e in 0..cap, l in 0..=cap symbolic), which reaches every (end, len) combination of either kind;
//!     then one public method is called and compared with a bounded-deque model (oldest first).
//! (2) K-step symbolic operation sequences from the empty buffer against the model.
//! Not covered: to_string (core::fmt).
use crate::gen::bounds::{BUF_CAP, BUF_SEQ};
use pushr::push::buffer::{BufferType, PushBuffer};

pub const DC: usize = BUF_CAP + 1;

#[derive(Clone, Copy)]
pub struct D {
    pub a: [i32; DC],
    pub len: usize,
    pub cap: usize,
    pub queue: bool,
}

impl D {
    fn push(&mut self, x: i32) {
        if self.len < self.cap {
            self.a[self.len] = x;
            self.len += 1;
        }
    }
    fn drop_oldest(&mut self) -> i32 {
        let v = self.a[0];
        let mut i = 0;
        while i + 1 < DC {
            if i + 1 < self.len {
                self.a[i] = self.a[i + 1];
            }
            i += 1;
        }
        self.len -= 1;
        v
    }
    fn push_force(&mut self, x: i32) {
        if self.len == self.cap {
            self.drop_oldest();
        }
        self.a[self.len] = x;
        self.len += 1;
    }
    fn pop(&mut self) -> Option<i32> {
        if self.len == 0 {
            None
        } else if self.queue {
            Some(self.drop_oldest())
        } else {
            self.len -= 1;
            Some(self.a[self.len])
        }
    }
    /// position i in the documented order: queue -> i-th oldest, stack -> i-th newest
    fn at(&self, i: usize) -> Option<i32> {
        if i >= self.len {
            None
        } else if self.queue {
            Some(self.a[i])
        } else {
            Some(self.a[self.len - 1 - i])
        }
    }
}

fn mk(queue: bool, cap: usize) -> PushBuffer<i32> {
    PushBuffer::new(if queue { BufferType::Queue } else { BufferType::Stack }, cap)
}

/// Arbitrary valid representation of a buffer with capacity `cap` together with its model.
pub fn sym_buffer(queue: bool, cap: usize) -> (PushBuffer<i32>, D) {
    let mut b = mk(queue, cap);
    let mut m = D { a: [0; DC], len: 0, cap, queue };
    let e: usize = kani::any();
    let l: usize = kani::any();
    kani::assume(e < cap && l <= cap);
    let mut i = 0;
    while i < cap {
        let x: i32 = kani::any();
        b.push(x);
        m.push(x);
        i += 1;
    }
    i = 0;
    while i < cap {
        if i < e {
            let x: i32 = kani::any();
            b.push_force(x);
            m.push_force(x);
        }
        i += 1;
    }
    i = 0;
    while i < cap {
        if i < cap - l {
            let r = b.pop();
            let w = m.pop();
            kani::assume(r == w); // pop is checked on its own; here it only drives the cursors
        }
        i += 1;
    }
    (b, m)
}

pub fn same(b: &PushBuffer<i32>, m: &D) -> bool {
    if b.size() != m.len || b.capacity() != m.cap {
        return false;
    }
    if b.is_empty() != (m.len == 0) || b.is_full() != (m.len == m.cap) {
        return false;
    }
    let mut i = 0;
    while i < DC {
        if b.get(i).copied() != m.at(i) {
            return false;
        }
        i += 1;
    }
    true
}

fn all_kinds(f: fn(&mut PushBuffer<i32>, &mut D)) {
    let mut q = 0;
    while q < 2 {
        let mut cap = 1;
        while cap <= BUF_CAP {
            let (mut b, mut m) = sym_buffer(q == 0, cap);
            f(&mut b, &mut m);
            assert!(same(&b, &m), "buffer contents differ from the bounded-sequence model");
            assert!(b.size() <= cap, "size exceeds capacity");
            // probe suffix: the internal cursors are not observable directly, so the representation left
            // behind is exercised by one more push and one more pop (this is what makes the step inductive)
            let x: i32 = kani::any();
            b.push_force(x);
            m.push_force(x);
            assert!(same(&b, &m), "after the operation a following push_force is misplaced (stale cursor)");
            let r = b.pop();
            let w = m.pop();
            assert!(r == w && same(&b, &m), "after the operation a following pop returns the wrong item (stale cursor)");
            std::mem::forget(b);
            cap += 1;
        }
        q += 1;
    }
    kani::cover!(true, "reached end");
}

macro_rules! hb {
    ($name:ident, $body:expr) => {
        #[kani::proof]
        #[kani::unwind(8)]
        pub fn $name() {
            all_kinds($body);
        }
    };
}

// the link everything else is observed through: get / size / capacity / is_empty / is_full
#[kani::proof]
#[kani::unwind(8)]
pub fn c17_op_observers() {
    let mut q = 0;
    while q < 2 {
        let mut cap = 1;
        while cap <= BUF_CAP {
            let (b, m) = sym_buffer(q == 0, cap);
            assert!(b.size() == m.len, "size is the number of live items");
            assert!(b.capacity() == cap);
            assert!(b.is_empty() == (m.len == 0));
            assert!(b.is_full() == (m.len == cap));
            let i: usize = kani::any();
            kani::assume(i < usize::MAX / 4);
            assert!(b.get(i).copied() == m.at(i), "get(i): i-th live item in the documented order, None beyond");
            assert!(b.copy(i) == m.at(i), "copy(i): i-th live item in the documented order, None beyond");
            std::mem::forget(b);
            cap += 1;
        }
        q += 1;
    }
    kani::cover!(true, "reached end");
}

hb!(c17_op_push, |b, m| {
    let x: i32 = kani::any();
    b.push(x);
    m.push(x);
});
hb!(c17_op_push_force, |b, m| {
    let x: i32 = kani::any();
    b.push_force(x);
    m.push_force(x);
});
hb!(c17_op_pop, |b, m| {
    let r = b.pop();
    let w = m.pop();
    assert!(r == w, "queue pops the oldest, stack pops the newest, empty pops None");
});
hb!(c17_op_flush, |b, m| {
    b.flush();
    m.len = 0;
});
hb!(c17_op_get_mut, |b, m| {
    let i: usize = kani::any();
    kani::assume(i < usize::MAX / 4);
    let x: i32 = kani::any();
    match b.get_mut(i) {
        Some(r) => {
            assert!(Some(*r) == m.at(i), "get_mut(i) addresses the i-th live item");
            *r = x;
            let k = if m.queue { i } else { m.len - 1 - i };
            m.a[k] = x;
        }
        None => assert!(i >= m.len, "get_mut in range must be Some"),
    }
});
hb!(c17_op_peeks, |b, m| {
    let oldest = if m.len == 0 { None } else { Some(m.a[0]) };
    let newest = if m.len == 0 { None } else { Some(m.a[m.len - 1]) };
    assert!(b.peek_oldest().copied() == oldest, "peek_oldest");
    assert!(b.copy_oldest() == oldest, "copy_oldest");
    assert!(b.peek_newest().copied() == newest, "peek_newest");
});
hb!(c17_op_iter, |b, m| {
    let mut it = b.iter();
    assert!(it.len() == m.len, "iterator length is the number of live items");
    let mut i = 0;
    while i < DC {
        let got = it.next().copied();
        let want = if i < m.len { Some(m.a[i]) } else { None };
        assert!(got == want, "iteration yields exactly the live items, oldest first");
        i += 1;
    }
});

#[kani::proof]
#[kani::unwind(8)]
pub fn c17_new_is_empty() {
    let mut q = 0;
    while q < 2 {
        let mut cap = 1;
        while cap <= BUF_CAP {
            let mut b = mk(q == 0, cap);
            assert!(b.size() == 0 && b.is_empty() && b.capacity() == cap && (b.is_full() == false));
            assert!(b.get(0).is_none() && b.peek_oldest().is_none() && b.peek_newest().is_none());
            assert!(b.pop().is_none());
            assert!(b.iter().next().is_none());
            std::mem::forget(b);
            cap += 1;
        }
        q += 1;
    }
}

/// K symbolic operations from the empty buffer (kind and capacity enumerated).
fn seq(queue: bool, cap: usize) {
    let mut b = mk(queue, cap);
    let mut m = D { a: [0; DC], len: 0, cap, queue };
    let mut step = 0;
    while step < BUF_SEQ {
        let op: u8 = kani::any();
        let x: i32 = kani::any();
        match op % 5 {
            0 => {
                b.push(x);
                m.push(x);
            }
            1 => {
                b.push_force(x);
                m.push_force(x);
            }
            2 => {
                let r = b.pop();
                assert!(r == m.pop(), "pop result differs from the model");
            }
            3 => {
                let i: usize = kani::any();
                kani::assume(i <= cap + 1);
                assert!(b.copy(i) == m.at(i), "indexed access differs from the model");
            }
            _ => {
                if x == 0 {
                    b.flush();
                    m.len = 0;
                }
            }
        }
        assert!(b.size() <= cap, "size exceeds capacity");
        step += 1;
    }
    assert!(same(&b, &m), "buffer contents differ from the bounded-sequence model after the sequence");
    std::mem::forget(b);
}

macro_rules! hs {
    ($name:ident, $q:expr, $cap:expr) => {
        #[kani::proof]
        #[kani::unwind(9)]
        pub fn $name() {
            if $cap <= BUF_CAP {
                seq($q, $cap);
            }
            kani::cover!(true, "reached end");
        }
    };
}
hs!(c17_seq_queue_cap1, true, 1);
hs!(c17_seq_queue_cap2, true, 2);
hs!(c17_seq_queue_cap3, true, 3);
hs!(c17_seq_queue_cap4, true, 4);
hs!(c17_seq_stack_cap1, false, 1);
hs!(c17_seq_stack_cap2, false, 2);
hs!(c17_seq_stack_cap3, false, 3);
hs!(c17_seq_stack_cap4, false, 4);
