//! Reference models written from the doc comments in /repo/src/push/*.rs, the README and the property
//! statements — never from the instruction bodies. One `fn(&Snap) -> Want` per instruction name
//! (name mangling: '.'->'_', '+' Plus, '-' Minus, '*' Star, '/' Slash, '%' Pct, '<' Lt, '>' Gt, '=' Eq).
//! gen.py only generates semantic harnesses for names that have a function here.
use crate::state::*;

pub const M_INT: u32 = 1;
pub const M_FLT: u32 = 2;
pub const M_BOOL: u32 = 4;
pub const M_NAME: u32 = 8;
pub const M_CODE: u32 = 16;
pub const M_EXEC: u32 = 32;
pub const M_INDEX: u32 = 64;
pub const M_BVEC: u32 = 128;
pub const M_IVEC: u32 = 256;
pub const M_FVEC: u32 = 512;
pub const M_IN: u32 = 1024;
pub const M_OUT: u32 = 2048;
pub const M_FLAGS: u32 = 4096;
pub const M_ALL: u32 = 8191;

#[derive(Clone, Copy)]
pub struct Want {
    /// expected post-state when the instruction applies
    pub s: Snap,
    /// the instruction has all operands / guards satisfied
    pub fired: bool,
    /// stacks the instruction takes operands from (may be partially consumed when it does not fire)
    pub operands: u32,
    /// stacks the instruction may write results to (footprint for the frame check)
    pub results: u32,
    /// value on top of INTEGER / FLOAT is left free by the statement (unrepresentable result, or a
    /// transcendental function whose CBMC model is not exact)
    pub free_int_top: bool,
    pub free_flt_top: bool,
    /// all element values of the top FLOATVECTOR are left free (SINE)
    pub free_fvec_top: bool,
}

impl Want {
    pub fn new(b: &Snap, operands: u32, results: u32) -> Want {
        Want { s: *b, fired: false, operands, results, free_int_top: false, free_flt_top: false, free_fvec_top: false }
    }
}

pub fn clamp(idx: i32, size: usize) -> usize {
    // i32::max(i32::min(size - 1, idx), 0)
    let hi = size as i32 - 1;
    let v = if idx < hi { idx } else { hi };
    if v < 0 { 0 } else { v as usize }
}

// ------------------------------------------------------------------------------------------------
// generic stack manipulation on Seq (position 0 = top)

pub fn g_dup<T: Copy, const N: usize>(s: &mut Seq<T, N>) -> bool {
    if s.len >= 1 {
        let t = s.top(0);
        s.push(t);
        true
    } else {
        false
    }
}
pub fn g_pop<T: Copy, const N: usize>(s: &mut Seq<T, N>) -> bool {
    if s.len >= 1 {
        s.pop();
    }
    true
}
pub fn g_swap<T: Copy, const N: usize>(s: &mut Seq<T, N>) -> bool {
    if s.len >= 2 {
        let a = s.pop();
        let b = s.pop();
        s.push(a);
        s.push(b);
    }
    true
}
pub fn g_rot<T: Copy, const N: usize>(s: &mut Seq<T, N>) -> bool {
    if s.len >= 3 {
        let k = s.len - 3;
        let v = s.remove_idx(k);
        s.push(v);
    }
    true
}
/// pos already clamped into 0..len-1 (len >= 1)
pub fn g_yank<T: Copy, const N: usize>(s: &mut Seq<T, N>, pos: usize) {
    let k = s.len - 1 - pos;
    let v = s.remove_idx(k);
    s.push(v);
}
pub fn g_shove<T: Copy, const N: usize>(s: &mut Seq<T, N>, pos: usize) {
    let v = s.pop();
    let k = s.len - pos;
    s.insert_idx(k, v);
}
pub fn g_yankdup<T: Copy, const N: usize>(s: &mut Seq<T, N>, pos: usize) {
    let v = s.top(pos);
    s.push(v);
}

// Without the `paste` crate: spell the functions out through a helper macro taking all idents.
macro_rules! manip_fns {
    ($field:ident, $mask:expr, $dup:ident, $pop:ident, $swap:ident, $rot:ident, $flush:ident, $yank:ident, $shove:ident, $yankdup:ident, $depth:ident) => {
        pub fn $dup(b: &Snap) -> Want {
            let mut w = Want::new(b, $mask, $mask);
            w.fired = g_dup(&mut w.s.$field);
            w
        }
        pub fn $pop(b: &Snap) -> Want {
            let mut w = Want::new(b, $mask, $mask);
            w.fired = g_pop(&mut w.s.$field);
            w
        }
        pub fn $swap(b: &Snap) -> Want {
            let mut w = Want::new(b, $mask, $mask);
            w.fired = g_swap(&mut w.s.$field);
            w
        }
        pub fn $rot(b: &Snap) -> Want {
            let mut w = Want::new(b, $mask, $mask);
            w.fired = g_rot(&mut w.s.$field);
            w
        }
        pub fn $flush(b: &Snap) -> Want {
            let mut w = Want::new(b, $mask, $mask);
            w.s.$field.len = 0;
            w.fired = true;
            w
        }
        pub fn $yank(b: &Snap) -> Want {
            let mut w = Want::new(b, M_INT | $mask, $mask | M_INT);
            if b.int.len >= 1 {
                let idx = w.s.int.pop();
                w.fired = true;
                if w.s.$field.len >= 1 {
                    let p = clamp(idx, w.s.$field.len);
                    g_yank(&mut w.s.$field, p);
                }
            }
            w
        }
        pub fn $shove(b: &Snap) -> Want {
            let mut w = Want::new(b, M_INT | $mask, $mask | M_INT);
            if b.int.len >= 1 {
                let idx = w.s.int.pop();
                w.fired = true;
                if w.s.$field.len >= 1 {
                    let p = clamp(idx, w.s.$field.len);
                    g_shove(&mut w.s.$field, p);
                }
            }
            w
        }
        pub fn $yankdup(b: &Snap) -> Want {
            let mut w = Want::new(b, M_INT | $mask, $mask | M_INT);
            if b.int.len >= 1 {
                let idx = w.s.int.pop();
                if w.s.$field.len >= 1 {
                    let p = clamp(idx, w.s.$field.len);
                    g_yankdup(&mut w.s.$field, p);
                    w.fired = true;
                }
            }
            w
        }
        pub fn $depth(b: &Snap) -> Want {
            let mut w = Want::new(b, 0, M_INT);
            let d = b.$field.len as i32;
            // INTEGER.STACKDEPTH counts the value it pushes
            let d = if $mask == M_INT { d + 1 } else { d };
            w.s.int.push(d);
            w.fired = true;
            w
        }
    };
}

manip_fns!(boo, M_BOOL, BOOLEAN_DUP, BOOLEAN_POP, BOOLEAN_SWAP, BOOLEAN_ROT, BOOLEAN_FLUSH, BOOLEAN_YANK, BOOLEAN_SHOVE, BOOLEAN_YANKDUP, BOOLEAN_STACKDEPTH);
manip_fns!(int, M_INT, INTEGER_DUP, INTEGER_POP, INTEGER_SWAP, INTEGER_ROT, INTEGER_FLUSH, INTEGER_YANK, INTEGER_SHOVE, INTEGER_YANKDUP, INTEGER_STACKDEPTH);
manip_fns!(flt, M_FLT, FLOAT_DUP, FLOAT_POP, FLOAT_SWAP, FLOAT_ROT, FLOAT_FLUSH, FLOAT_YANK, FLOAT_SHOVE, FLOAT_YANKDUP, FLOAT_STACKDEPTH);
manip_fns!(name, M_NAME, NAME_DUP, NAME_POP, NAME_SWAP, NAME_ROT, NAME_FLUSH, NAME_YANK, NAME_SHOVE, NAME_YANKDUP, NAME_STACKDEPTH);
manip_fns!(bvec, M_BVEC, BOOLVECTOR_DUP, BOOLVECTOR_POP, BOOLVECTOR_SWAP, BOOLVECTOR_ROT_unused, BOOLVECTOR_FLUSH, BOOLVECTOR_YANK, BOOLVECTOR_SHOVE, BOOLVECTOR_YANKDUP, BOOLVECTOR_STACKDEPTH);
manip_fns!(ivec, M_IVEC, INTVECTOR_DUP, INTVECTOR_POP, INTVECTOR_SWAP, INTVECTOR_ROT_unused, INTVECTOR_FLUSH, INTVECTOR_YANK, INTVECTOR_SHOVE, INTVECTOR_YANKDUP, INTVECTOR_STACKDEPTH);
manip_fns!(fvec, M_FVEC, FLOATVECTOR_DUP, FLOATVECTOR_POP, FLOATVECTOR_SWAP, FLOATVECTOR_ROT_unused, FLOATVECTOR_FLUSH, FLOATVECTOR_YANK, FLOATVECTOR_SHOVE, FLOATVECTOR_YANKDUP, FLOATVECTOR_STACKDEPTH);
// CODE / EXEC: only the operations that move items (DUP/YANKDUP/POP/FLUSH clone or drop an Item: out of reach)
manip_fns!(code, M_CODE, CODE_DUP_unused, CODE_POP_unused, CODE_SWAP, CODE_ROT, CODE_FLUSH_unused, CODE_YANK, CODE_SHOVE, CODE_YANKDUP_unused, CODE_STACKDEPTH);
manip_fns!(exec, M_EXEC, EXEC_DUP_unused, EXEC_POP_unused, EXEC_SWAP, EXEC_ROT, EXEC_FLUSH_unused, EXEC_YANK, EXEC_SHOVE, EXEC_YANKDUP_unused, EXEC_STACKDEPTH);

// ------------------------------------------------------------------------------------------------
// *.ID

macro_rules! id_fn {
    ($name:ident, $id:expr) => {
        pub fn $name(b: &Snap) -> Want {
            let mut w = Want::new(b, 0, M_INT);
            w.s.int.push($id);
            w.fired = true;
            w
        }
    };
}
id_fn!(BOOLEAN_ID, 1);
id_fn!(BOOLVECTOR_ID, 2);
id_fn!(CODE_ID, 3);
id_fn!(EXEC_ID, 4);
id_fn!(FLOAT_ID, 5);
id_fn!(FLOATVECTOR_ID, 6);
id_fn!(INTEGER_ID, 9);
id_fn!(INTVECTOR_ID, 10);
id_fn!(NAME_ID, 11);

pub fn NOOP(b: &Snap) -> Want {
    let mut w = Want::new(b, 0, 0);
    w.fired = true;
    w
}
pub fn CODE_NOOP(b: &Snap) -> Want {
    NOOP(b)
}

// ------------------------------------------------------------------------------------------------
// BOOLEAN

macro_rules! bool_binop {
    ($name:ident, $f:expr) => {
        pub fn $name(b: &Snap) -> Want {
            let mut w = Want::new(b, M_BOOL, M_BOOL);
            if b.boo.len >= 2 {
                let top = w.s.boo.pop();
                let second = w.s.boo.pop();
                let f: fn(bool, bool) -> bool = $f;
                w.s.boo.push(f(second, top));
                w.fired = true;
            }
            w
        }
    };
}
bool_binop!(BOOLEAN_Eq, |a, b| a == b);
bool_binop!(BOOLEAN_AND, |a, b| a && b);
bool_binop!(BOOLEAN_OR, |a, b| a || b);

pub fn BOOLEAN_NOT(b: &Snap) -> Want {
    let mut w = Want::new(b, M_BOOL, M_BOOL);
    if b.boo.len >= 1 {
        let t = w.s.boo.pop();
        w.s.boo.push(!t);
        w.fired = true;
    }
    w
}
/// BOOLEAN.FROMFLOAT: Pushes FALSE if the top FLOAT is 0.0, or TRUE otherwise (conversion: consumes it).
pub fn BOOLEAN_FROMFLOAT(b: &Snap) -> Want {
    let mut w = Want::new(b, M_FLT, M_BOOL);
    if b.flt.len >= 1 {
        let t = w.s.flt.pop();
        w.s.boo.push(!(t == 0.0));
        w.fired = true;
    }
    w
}
/// BOOLEAN.FROMINTEGER: Pushes FALSE if the top INTEGER is 0, or TRUE otherwise.
pub fn BOOLEAN_FROMINTEGER(b: &Snap) -> Want {
    let mut w = Want::new(b, M_INT, M_BOOL);
    if b.int.len >= 1 {
        let t = w.s.int.pop();
        w.s.boo.push(t != 0);
        w.fired = true;
    }
    w
}

// ------------------------------------------------------------------------------------------------
// INTEGER

macro_rules! int_binop {
    ($name:ident, $f:expr) => {
        pub fn $name(b: &Snap) -> Want {
            let mut w = Want::new(b, M_INT, M_INT);
            if b.int.len >= 2 {
                let top = w.s.int.pop();
                let second = w.s.int.pop();
                let f: fn(i32, i32) -> Option<i32> = $f;
                match f(second, top) {
                    Some(r) => w.s.int.push(r),
                    None => {
                        // mathematical result not representable: any in-type value
                        w.s.int.push(0);
                        w.free_int_top = true;
                    }
                }
                w.fired = true;
            }
            w
        }
    };
}
int_binop!(INTEGER_Plus, |a, b| a.checked_add(b));
int_binop!(INTEGER_Minus, |a, b| a.checked_sub(b));
int_binop!(INTEGER_Star, |a, b| a.checked_mul(b));
int_binop!(INTEGER_MAX, |a, b| Some(if a > b { a } else { b }));
int_binop!(INTEGER_MIN, |a, b| Some(if a < b { a } else { b }));

/// Division and modulus: "If the top item is zero this acts as a NOOP." A zero divisor yields no
/// result; whether the two operands are consumed is left open (`fired = false` => relaxed check).
macro_rules! int_divop {
    ($name:ident, $f:expr) => {
        pub fn $name(b: &Snap) -> Want {
            let mut w = Want::new(b, M_INT, M_INT);
            if b.int.len >= 2 && b.int.top(0) != 0 {
                let top = w.s.int.pop();
                let second = w.s.int.pop();
                let f: fn(i32, i32) -> Option<i32> = $f;
                match f(second, top) {
                    Some(r) => w.s.int.push(r),
                    None => {
                        w.s.int.push(0);
                        w.free_int_top = true;
                    }
                }
                w.fired = true;
            }
            w
        }
    };
}
int_divop!(INTEGER_Slash, |a, b| a.checked_div(b));
// pinned by the repository's own test (-13 % 10 == -3): remainder of the truncated quotient
int_divop!(INTEGER_Pct, |a, b| if a == i32::MIN && b == -1 { Some(0) } else { a.checked_rem(b) });

macro_rules! int_cmp {
    ($name:ident, $f:expr) => {
        pub fn $name(b: &Snap) -> Want {
            let mut w = Want::new(b, M_INT, M_BOOL);
            if b.int.len >= 2 {
                let top = w.s.int.pop();
                let second = w.s.int.pop();
                let f: fn(i32, i32) -> bool = $f;
                w.s.boo.push(f(second, top));
                w.fired = true;
            }
            w
        }
    };
}
int_cmp!(INTEGER_Lt, |a, b| a < b);
int_cmp!(INTEGER_Gt, |a, b| a > b);
int_cmp!(INTEGER_Eq, |a, b| a == b);

pub fn INTEGER_ABS(b: &Snap) -> Want {
    let mut w = Want::new(b, M_INT, M_INT);
    if b.int.len >= 1 {
        let t = w.s.int.pop();
        match t.checked_abs() {
            Some(r) => w.s.int.push(r),
            None => {
                w.s.int.push(0);
                w.free_int_top = true;
            }
        }
        w.fired = true;
    }
    w
}
/// INTEGER.DDUP: Duplicates the two top items on the INTEGER stack while preserving its order.
pub fn INTEGER_DDUP(b: &Snap) -> Want {
    let mut w = Want::new(b, M_INT, M_INT);
    if b.int.len >= 2 {
        let t = b.int.top(0);
        let s = b.int.top(1);
        w.s.int.push(s);
        w.s.int.push(t);
        w.fired = true;
    }
    w
}
pub fn INTEGER_FROMBOOLEAN(b: &Snap) -> Want {
    let mut w = Want::new(b, M_BOOL, M_INT);
    if b.boo.len >= 1 {
        let t = w.s.boo.pop();
        w.s.int.push(if t { 1 } else { 0 });
        w.fired = true;
    }
    w
}
/// INTEGER.FROMFLOAT: truncation; out of range / NaN: any in-type value.
pub fn INTEGER_FROMFLOAT(b: &Snap) -> Want {
    let mut w = Want::new(b, M_FLT, M_INT);
    if b.flt.len >= 1 {
        let t = w.s.flt.pop();
        if t >= -2147483648.0 && t < 2147483648.0 {
            // -2^31 <= t < 2^31: truncation toward zero is representable
            w.s.int.push(t as i32);
        } else {
            // out of range or NaN: any in-type value
            w.s.int.push(0);
            w.free_int_top = true;
        }
        w.fired = true;
    }
    w
}

// ------------------------------------------------------------------------------------------------
// FLOAT

macro_rules! flt_binop {
    ($name:ident, $f:expr) => {
        pub fn $name(b: &Snap) -> Want {
            let mut w = Want::new(b, M_FLT, M_FLT);
            if b.flt.len >= 2 {
                let top = w.s.flt.pop();
                let second = w.s.flt.pop();
                let f: fn(f32, f32) -> f32 = $f;
                w.s.flt.push(f(second, top));
                w.fired = true;
            }
            w
        }
    };
}
flt_binop!(FLOAT_Plus, |a, b| a + b);
flt_binop!(FLOAT_Minus, |a, b| a - b);
flt_binop!(FLOAT_Star, |a, b| a * b);

/// MAX / MIN: with a NaN operand or +0/-0 either operand is an acceptable in-type answer.
macro_rules! flt_minmax {
    ($name:ident, $is_max:expr) => {
        pub fn $name(b: &Snap) -> Want {
            let mut w = Want::new(b, M_FLT, M_FLT);
            if b.flt.len >= 2 {
                let top = w.s.flt.pop();
                let second = w.s.flt.pop();
                if top.is_nan() || second.is_nan() || top == second {
                    w.s.flt.push(top);
                    w.free_flt_top = true; // checked separately: must be one of the operands
                } else if $is_max {
                    w.s.flt.push(if second > top { second } else { top });
                } else {
                    w.s.flt.push(if second < top { second } else { top });
                }
                w.fired = true;
            }
            w
        }
    };
}
flt_minmax!(FLOAT_MAX, true);
flt_minmax!(FLOAT_MIN, false);

pub fn FLOAT_Slash(b: &Snap) -> Want {
    let mut w = Want::new(b, M_FLT, M_FLT);
    if b.flt.len >= 2 && b.flt.top(0) != 0.0 {
        let top = w.s.flt.pop();
        let second = w.s.flt.pop();
        w.s.flt.push(second / top);
        w.fired = true;
    }
    w
}
/// FLOAT.%: value left free (CBMC's fmodf model is not exact); shapes asserted.
pub fn FLOAT_Pct(b: &Snap) -> Want {
    let mut w = Want::new(b, M_FLT, M_FLT);
    if b.flt.len >= 2 && b.flt.top(0) != 0.0 {
        w.s.flt.pop();
        w.s.flt.pop();
        w.s.flt.push(0.0);
        w.free_flt_top = true;
        w.fired = true;
    }
    w
}
macro_rules! flt_cmp {
    ($name:ident, $f:expr) => {
        pub fn $name(b: &Snap) -> Want {
            let mut w = Want::new(b, M_FLT, M_BOOL);
            if b.flt.len >= 2 {
                let top = w.s.flt.pop();
                let second = w.s.flt.pop();
                let f: fn(f32, f32) -> bool = $f;
                w.s.boo.push(f(second, top));
                w.fired = true;
            }
            w
        }
    };
}
flt_cmp!(FLOAT_Lt, |a, b| a < b);
flt_cmp!(FLOAT_Gt, |a, b| a > b);
flt_cmp!(FLOAT_Eq, |a, b| a == b);

/// SIN / COS / TAN / EXP: consume one FLOAT, push one FLOAT; the value is outside the claim.
macro_rules! flt_transc {
    ($name:ident) => {
        pub fn $name(b: &Snap) -> Want {
            let mut w = Want::new(b, M_FLT, M_FLT);
            if b.flt.len >= 1 {
                w.s.flt.pop();
                w.s.flt.push(0.0);
                w.free_flt_top = true;
                w.fired = true;
            }
            w
        }
    };
}
flt_transc!(FLOAT_SIN);
flt_transc!(FLOAT_COS);
flt_transc!(FLOAT_TAN);
flt_transc!(FLOAT_EXP);

pub fn FLOAT_FROMBOOLEAN(b: &Snap) -> Want {
    let mut w = Want::new(b, M_BOOL, M_FLT);
    if b.boo.len >= 1 {
        let t = w.s.boo.pop();
        w.s.flt.push(if t { 1.0 } else { 0.0 });
        w.fired = true;
    }
    w
}
pub fn FLOAT_FROMINTEGER(b: &Snap) -> Want {
    let mut w = Want::new(b, M_INT, M_FLT);
    if b.int.len >= 1 {
        let t = w.s.int.pop();
        w.s.flt.push(t as f32);
        w.fired = true;
    }
    w
}

// ------------------------------------------------------------------------------------------------
// NAME

pub fn NAME_Eq(b: &Snap) -> Want {
    let mut w = Want::new(b, M_NAME, M_BOOL);
    if b.name.len >= 2 {
        let top = w.s.name.pop();
        let second = w.s.name.pop();
        let mut e = top.len == second.len;
        let mut j = 0;
        while j < 8 {
            if top.b[j] != second.b[j] {
                e = false;
            }
            j += 1;
        }
        w.s.boo.push(e);
        w.fired = true;
    }
    w
}
/// NAME.CAT: second, a blank, then the top item ("the top item will be appended").
pub fn NAME_CAT(b: &Snap) -> Want {
    let mut w = Want::new(b, M_NAME, M_NAME);
    if b.name.len >= 2 {
        let top = w.s.name.pop();
        let second = w.s.name.pop();
        let mut r = NameVal { len: second.len + 1 + top.len, b: [0; 8] };
        let mut j = 0;
        while j < 8 {
            if j < second.len {
                r.b[j] = second.b[j];
            } else if j == second.len {
                r.b[j] = b' ';
            } else if j - second.len - 1 < top.len {
                r.b[j] = top.b[j - second.len - 1];
            }
            j += 1;
        }
        w.s.name.push(r);
        w.fired = true;
    }
    w
}
pub fn NAME_QUOTE(b: &Snap) -> Want {
    let mut w = Want::new(b, 0, M_FLAGS);
    w.s.quote = true;
    w.fired = true;
    w
}
pub fn NAME_SEND(b: &Snap) -> Want {
    let mut w = Want::new(b, 0, M_FLAGS);
    w.s.send = true;
    w.fired = true;
    w
}

// ------------------------------------------------------------------------------------------------
// CODE.FROM* and the CODE instructions that only inspect or move items

pub fn CODE_FROMINTEGER(b: &Snap) -> Want {
    let mut w = Want::new(b, M_INT, M_CODE);
    if b.int.len >= 1 {
        let t = w.s.int.pop();
        w.s.code.push(ItemSum { kind: 1, payload: t as i64 });
        w.fired = true;
    }
    w
}
pub fn CODE_FROMFLOAT(b: &Snap) -> Want {
    let mut w = Want::new(b, M_FLT, M_CODE);
    if b.flt.len >= 1 {
        let t = w.s.flt.pop();
        w.s.code.push(ItemSum { kind: 2, payload: t.to_bits() as i64 });
        w.fired = true;
    }
    w
}
pub fn CODE_FROMBOOLEAN(b: &Snap) -> Want {
    let mut w = Want::new(b, M_BOOL, M_CODE);
    if b.boo.len >= 1 {
        let t = w.s.boo.pop();
        w.s.code.push(ItemSum { kind: 3, payload: t as i64 });
        w.fired = true;
    }
    w
}
pub fn CODE_FROMNAME(b: &Snap) -> Want {
    let mut w = Want::new(b, M_NAME, M_CODE);
    if b.name.len >= 1 {
        let t = w.s.name.pop();
        w.s.code.push(ItemSum { kind: 4, payload: (t.len as i64) * 256 + t.b[0] as i64 });
        w.fired = true;
    }
    w
}
/// CODE.QUOTE: moves the top EXEC item onto the CODE stack.
pub fn CODE_QUOTE(b: &Snap) -> Want {
    let mut w = Want::new(b, M_EXEC, M_CODE);
    if b.exec.len >= 1 {
        let t = w.s.exec.pop();
        w.s.code.push(t);
        w.fired = true;
    }
    w
}
/// CODE.APPEND (as documented in this repository): a two-element list of the top two items.
pub fn CODE_APPEND(b: &Snap) -> Want {
    let mut w = Want::new(b, M_CODE, M_CODE);
    if b.code.len >= 2 {
        w.s.code.pop();
        w.s.code.pop();
        w.s.code.push(ItemSum { kind: 6, payload: 2 });
        w.fired = true;
    }
    w
}
pub fn CODE_ATOM(b: &Snap) -> Want {
    let mut w = Want::new(b, 0, M_BOOL);
    if b.code.len >= 1 {
        let k = b.code.top(0).kind;
        w.s.boo.push(k != 6);
        w.fired = true;
    }
    w
}
pub fn CODE_NULL(b: &Snap) -> Want {
    let mut w = Want::new(b, 0, M_BOOL);
    if b.code.len >= 1 {
        let t = b.code.top(0);
        w.s.boo.push(t.kind == 6 && t.payload == 0);
        w.fired = true;
    }
    w
}
pub fn CODE_LENGTH(b: &Snap) -> Want {
    let mut w = Want::new(b, 0, M_INT);
    if b.code.len >= 1 {
        let t = b.code.top(0);
        w.s.int.push(if t.kind == 6 { t.payload as i32 } else { 1 });
        w.fired = true;
    }
    w
}

// ------------------------------------------------------------------------------------------------
// INDEX

pub fn INDEX_CURRENT(b: &Snap) -> Want {
    let mut w = Want::new(b, 0, M_INT);
    if b.index.len >= 1 {
        w.s.int.push(b.index.top(0).0 as i32);
        w.fired = true;
    }
    w
}
/// INDEX.DEFINE: Pushes the top INTEGER as destination of a new index (negative values become 0).
pub fn INDEX_DEFINE(b: &Snap) -> Want {
    let mut w = Want::new(b, M_INT, M_INDEX);
    if b.int.len >= 1 {
        let t = w.s.int.pop();
        w.s.index.push((0, if t < 0 { 0 } else { t as usize }));
        w.fired = true;
    }
    w
}
pub fn INDEX_INCREASE(b: &Snap) -> Want {
    let mut w = Want::new(b, 0, M_INDEX);
    if b.index.len >= 1 {
        let (c, d) = b.index.top(0);
        if c < d {
            let k = w.s.index.len - 1;
            w.s.index.a[k] = (c + 1, d);
        }
        w.fired = true;
    }
    w
}
pub fn INDEX_POP(b: &Snap) -> Want {
    let mut w = Want::new(b, M_INDEX, M_INDEX);
    w.fired = g_pop(&mut w.s.index);
    w
}
pub fn INDEX_FLUSH(b: &Snap) -> Want {
    let mut w = Want::new(b, M_INDEX, M_INDEX);
    w.s.index.len = 0;
    w.fired = true;
    w
}

// ------------------------------------------------------------------------------------------------
// INPUT / OUTPUT depth-level instructions (contents: c17_io.rs)

pub fn INPUT_AVAILABLE(b: &Snap) -> Want {
    let mut w = Want::new(b, 0, M_BOOL);
    w.s.boo.push(b.input_len > 0);
    w.fired = true;
    w
}
pub fn INPUT_STACKDEPTH(b: &Snap) -> Want {
    let mut w = Want::new(b, 0, M_INT);
    w.s.int.push(b.input_len as i32);
    w.fired = true;
    w
}
pub fn OUTPUT_STACKDEPTH(b: &Snap) -> Want {
    let mut w = Want::new(b, 0, M_INT);
    w.s.int.push(b.output_len as i32);
    w.fired = true;
    w
}
pub fn GRAPH_STACKDEPTH(b: &Snap) -> Want {
    let mut w = Want::new(b, 0, M_INT);
    w.s.int.push(b.graph_len as i32);
    w.fired = true;
    w
}

/// CODE.SIZE on an atom is 1; on a list the point count is checked in c08_code.rs (value free here).
pub fn CODE_SIZE(b: &Snap) -> Want {
    let mut w = Want::new(b, 0, M_INT);
    if b.code.len >= 1 {
        w.s.int.push(1);
        if b.code.top(0).kind == 6 {
            w.free_int_top = true;
        }
        w.fired = true;
    }
    w
}
