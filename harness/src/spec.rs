//! Reference models written from the doc comments in /repo/src/push/*.rs, the README and the property
//! statements — never from the instruction bodies. One `fn(&Snap) -> Want` per instruction name
//! (name mangling: '.'->'_', '+' Plus, '-' Minus, '*' Star, '/' Slash, '%' Pct, '<' Lt, '>' Gt, '=' Eq).
//! gen.py only generates semantic harnesses for names that have a function here.
use crate::state::*;

pub const M_INT: u32 = 1;
pub const M_FLT: u32 = 2;
pub const M_BOOL: u32 = 4;
pub const M_NAME: u32 = 8;
pub const M_CODE: u32 = 16;
pub const M_EXEC: u32 = 32;
pub const M_INDEX: u32 = 64;
pub const M_BVEC: u32 = 128;
pub const M_IVEC: u32 = 256;
pub const M_FVEC: u32 = 512;
pub const M_IN: u32 = 1024;
pub const M_OUT: u32 = 2048;
pub const M_FLAGS: u32 = 4096;
pub const M_ALL: u32 = 8191;

#[derive(Clone, Copy)]
pub struct Want {
    /// expected post-state when the instruction applies
    pub s: Snap,
    /// the instruction has all operands / guards satisfied
    pub fired: bool,
    /// stacks the instruction takes operands from (may be partially consumed when it does not fire)
    pub operands: u32,
    /// stacks the instruction may write results to (footprint for the frame check)
    pub results: u32,
    /// value on top of INTEGER / FLOAT is left free by the statement (unrepresentable result, or a
    /// transcendental function whose CBMC model is not exact)
    pub free_int_top: bool,
    pub free_flt_top: bool,
    /// all element values of the top FLOATVECTOR are left free (SINE, sort with NaN)
    pub free_fvec_top: bool,
    /// bit i set: element i of the top INTVECTOR is left free (element-wise overflow)
    pub free_ivec_mask: u32,
}

impl Want {
    pub fn new(b: &Snap, operands: u32, results: u32) -> Want {
        Want { s: *b, fired: false, operands, results, free_int_top: false, free_flt_top: false, free_fvec_top: false, free_ivec_mask: 0 }
    }
}

pub fn clamp(idx: i32, size: usize) -> usize {
    // i32::max(i32::min(size - 1, idx), 0)
    let hi = size as i32 - 1;
    let v = if idx < hi { idx } else { hi };
    if v < 0 { 0 } else { v as usize }
}

// ------------------------------------------------------------------------------------------------
// generic stack manipulation on Seq (position 0 = top)

pub fn g_dup<T: Copy, const N: usize>(s: &mut Seq<T, N>) -> bool {
    if s.len >= 1 {
        let t = s.top(0);
        s.push(t);
        true
    } else {
        false
    }
}
pub fn g_pop<T: Copy, const N: usize>(s: &mut Seq<T, N>) -> bool {
    if s.len >= 1 {
        s.pop();
    }
    true
}
pub fn g_swap<T: Copy, const N: usize>(s: &mut Seq<T, N>) -> bool {
    if s.len >= 2 {
        let a = s.pop();
        let b = s.pop();
        s.push(a);
        s.push(b);
    }
    true
}
pub fn g_rot<T: Copy, const N: usize>(s: &mut Seq<T, N>) -> bool {
    if s.len >= 3 {
        let k = s.len - 3;
        let v = s.remove_idx(k);
        s.push(v);
    }
    true
}
/// pos already clamped into 0..len-1 (len >= 1)
pub fn g_yank<T: Copy, const N: usize>(s: &mut Seq<T, N>, pos: usize) {
    let k = s.len - 1 - pos;
    let v = s.remove_idx(k);
    s.push(v);
}
pub fn g_shove<T: Copy, const N: usize>(s: &mut Seq<T, N>, pos: usize) {
    let v = s.pop();
    let k = s.len - pos;
    s.insert_idx(k, v);
}
pub fn g_yankdup<T: Copy, const N: usize>(s: &mut Seq<T, N>, pos: usize) {
    let v = s.top(pos);
    s.push(v);
}

// Without the `paste` crate: spell the functions out through a helper macro taking all idents.
macro_rules! manip_fns {
    ($field:ident, $mask:expr, $dup:ident, $pop:ident, $swap:ident, $rot:ident, $flush:ident, $yank:ident, $shove:ident, $yankdup:ident, $depth:ident) => {
        pub fn $dup(b: &Snap) -> Want {
            let mut w = Want::new(b, $mask, $mask);
            w.fired = g_dup(&mut w.s.$field);
            w
        }
        pub fn $pop(b: &Snap) -> Want {
            let mut w = Want::new(b, $mask, $mask);
            w.fired = g_pop(&mut w.s.$field);
            w
        }
        pub fn $swap(b: &Snap) -> Want {
            let mut w = Want::new(b, $mask, $mask);
            w.fired = g_swap(&mut w.s.$field);
            w
        }
        pub fn $rot(b: &Snap) -> Want {
            let mut w = Want::new(b, $mask, $mask);
            w.fired = g_rot(&mut w.s.$field);
            w
        }
        pub fn $flush(b: &Snap) -> Want {
            let mut w = Want::new(b, $mask, $mask);
            w.s.$field.len = 0;
            w.fired = true;
            w
        }
        pub fn $yank(b: &Snap) -> Want {
            let mut w = Want::new(b, M_INT | $mask, $mask | M_INT);
            if b.int.len >= 1 {
                let idx = w.s.int.pop();
                w.fired = true;
                if w.s.$field.len >= 1 {
                    let p = clamp(idx, w.s.$field.len);
                    g_yank(&mut w.s.$field, p);
                }
            }
            w
        }
        pub fn $shove(b: &Snap) -> Want {
            let mut w = Want::new(b, M_INT | $mask, $mask | M_INT);
            if b.int.len >= 1 {
                let idx = w.s.int.pop();
                w.fired = true;
                if w.s.$field.len >= 1 {
                    let p = clamp(idx, w.s.$field.len);
                    g_shove(&mut w.s.$field, p);
                }
            }
            w
        }
        pub fn $yankdup(b: &Snap) -> Want {
            let mut w = Want::new(b, M_INT | $mask, $mask | M_INT);
            if b.int.len >= 1 {
                let idx = w.s.int.pop();
                if w.s.$field.len >= 1 {
                    let p = clamp(idx, w.s.$field.len);
                    g_yankdup(&mut w.s.$field, p);
                    w.fired = true;
                }
            }
            w
        }
        pub fn $depth(b: &Snap) -> Want {
            let mut w = Want::new(b, 0, M_INT);
            let d = b.$field.len as i32;
            // INTEGER.STACKDEPTH counts the value it pushes
            let d = if $mask == M_INT { d + 1 } else { d };
            w.s.int.push(d);
            w.fired = true;
            w
        }
    };
}

manip_fns!(boo, M_BOOL, BOOLEAN_DUP, BOOLEAN_POP, BOOLEAN_SWAP, BOOLEAN_ROT, BOOLEAN_FLUSH, BOOLEAN_YANK, BOOLEAN_SHOVE, BOOLEAN_YANKDUP, BOOLEAN_STACKDEPTH);
manip_fns!(int, M_INT, INTEGER_DUP, INTEGER_POP, INTEGER_SWAP, INTEGER_ROT, INTEGER_FLUSH, INTEGER_YANK, INTEGER_SHOVE, INTEGER_YANKDUP, INTEGER_STACKDEPTH);
manip_fns!(flt, M_FLT, FLOAT_DUP, FLOAT_POP, FLOAT_SWAP, FLOAT_ROT, FLOAT_FLUSH, FLOAT_YANK, FLOAT_SHOVE, FLOAT_YANKDUP, FLOAT_STACKDEPTH);
manip_fns!(name, M_NAME, NAME_DUP, NAME_POP, NAME_SWAP, NAME_ROT, NAME_FLUSH, NAME_YANK, NAME_SHOVE, NAME_YANKDUP, NAME_STACKDEPTH);
manip_fns!(bvec, M_BVEC, BOOLVECTOR_DUP, BOOLVECTOR_POP, BOOLVECTOR_SWAP, BOOLVECTOR_ROT_unused, BOOLVECTOR_FLUSH, BOOLVECTOR_YANK, BOOLVECTOR_SHOVE, BOOLVECTOR_YANKDUP, BOOLVECTOR_STACKDEPTH);
manip_fns!(ivec, M_IVEC, INTVECTOR_DUP, INTVECTOR_POP, INTVECTOR_SWAP, INTVECTOR_ROT_unused, INTVECTOR_FLUSH, INTVECTOR_YANK, INTVECTOR_SHOVE, INTVECTOR_YANKDUP, INTVECTOR_STACKDEPTH);
manip_fns!(fvec, M_FVEC, FLOATVECTOR_DUP, FLOATVECTOR_POP, FLOATVECTOR_SWAP, FLOATVECTOR_ROT_unused, FLOATVECTOR_FLUSH, FLOATVECTOR_YANK, FLOATVECTOR_SHOVE, FLOATVECTOR_YANKDUP, FLOATVECTOR_STACKDEPTH);
// CODE / EXEC: only the operations that move items (DUP/YANKDUP/POP/FLUSH clone or drop an Item: out of reach)
manip_fns!(code, M_CODE, CODE_DUP_unused, CODE_POP_unused, CODE_SWAP, CODE_ROT, CODE_FLUSH_unused, CODE_YANK, CODE_SHOVE, CODE_YANKDUP_unused, CODE_STACKDEPTH);
manip_fns!(exec, M_EXEC, EXEC_DUP_unused, EXEC_POP_unused, EXEC_SWAP, EXEC_ROT, EXEC_FLUSH_unused, EXEC_YANK, EXEC_SHOVE, EXEC_YANKDUP_unused, EXEC_STACKDEPTH);

// ------------------------------------------------------------------------------------------------
// *.ID

macro_rules! id_fn {
    ($name:ident, $id:expr) => {
        pub fn $name(b: &Snap) -> Want {
            let mut w = Want::new(b, 0, M_INT);
            w.s.int.push($id);
            w.fired = true;
            w
        }
    };
}
id_fn!(BOOLEAN_ID, 1);
id_fn!(BOOLVECTOR_ID, 2);
id_fn!(CODE_ID, 3);
id_fn!(EXEC_ID, 4);
id_fn!(FLOAT_ID, 5);
id_fn!(FLOATVECTOR_ID, 6);
id_fn!(INTEGER_ID, 9);
id_fn!(INTVECTOR_ID, 10);
id_fn!(NAME_ID, 11);

pub fn NOOP(b: &Snap) -> Want {
    let mut w = Want::new(b, 0, 0);
    w.fired = true;
    w
}
pub fn CODE_NOOP(b: &Snap) -> Want {
    NOOP(b)
}

// ------------------------------------------------------------------------------------------------
// BOOLEAN

macro_rules! bool_binop {
    ($name:ident, $f:expr) => {
        pub fn $name(b: &Snap) -> Want {
            let mut w = Want::new(b, M_BOOL, M_BOOL);
            if b.boo.len >= 2 {
                let top = w.s.boo.pop();
                let second = w.s.boo.pop();
                let f: fn(bool, bool) -> bool = $f;
                w.s.boo.push(f(second, top));
                w.fired = true;
            }
            w
        }
    };
}
bool_binop!(BOOLEAN_Eq, |a, b| a == b);
bool_binop!(BOOLEAN_AND, |a, b| a && b);
bool_binop!(BOOLEAN_OR, |a, b| a || b);

pub fn BOOLEAN_NOT(b: &Snap) -> Want {
    let mut w = Want::new(b, M_BOOL, M_BOOL);
    if b.boo.len >= 1 {
        let t = w.s.boo.pop();
        w.s.boo.push(!t);
        w.fired = true;
    }
    w
}
/// BOOLEAN.FROMFLOAT: Pushes FALSE if the top FLOAT is 0.0, or TRUE otherwise (conversion: consumes it).
pub fn BOOLEAN_FROMFLOAT(b: &Snap) -> Want {
    let mut w = Want::new(b, M_FLT, M_BOOL);
    if b.flt.len >= 1 {
        let t = w.s.flt.pop();
        w.s.boo.push(!(t == 0.0));
        w.fired = true;
    }
    w
}
/// BOOLEAN.FROMINTEGER: Pushes FALSE if the top INTEGER is 0, or TRUE otherwise.
pub fn BOOLEAN_FROMINTEGER(b: &Snap) -> Want {
    let mut w = Want::new(b, M_INT, M_BOOL);
    if b.int.len >= 1 {
        let t = w.s.int.pop();
        w.s.boo.push(t != 0);
        w.fired = true;
    }
    w
}

// ------------------------------------------------------------------------------------------------
// INTEGER

macro_rules! int_binop {
    ($name:ident, $f:expr) => {
        pub fn $name(b: &Snap) -> Want {
            let mut w = Want::new(b, M_INT, M_INT);
            if b.int.len >= 2 {
                let top = w.s.int.pop();
                let second = w.s.int.pop();
                let f: fn(i32, i32) -> Option<i32> = $f;
                match f(second, top) {
                    Some(r) => w.s.int.push(r),
                    None => {
                        // mathematical result not representable: any in-type value
                        w.s.int.push(0);
                        w.free_int_top = true;
                    }
                }
                w.fired = true;
            }
            w
        }
    };
}
int_binop!(INTEGER_Plus, |a, b| a.checked_add(b));
int_binop!(INTEGER_Minus, |a, b| a.checked_sub(b));
int_binop!(INTEGER_Star, |a, b| a.checked_mul(b));
int_binop!(INTEGER_MAX, |a, b| Some(if a > b { a } else { b }));
int_binop!(INTEGER_MIN, |a, b| Some(if a < b { a } else { b }));

/// Division and modulus: "If the top item is zero this acts as a NOOP." A zero divisor yields no
/// result; whether the two operands are consumed is left open (`fired = false` => relaxed check).
macro_rules! int_divop {
    ($name:ident, $f:expr) => {
        pub fn $name(b: &Snap) -> Want {
            let mut w = Want::new(b, M_INT, M_INT);
            if b.int.len >= 2 && b.int.top(0) != 0 {
                let top = w.s.int.pop();
                let second = w.s.int.pop();
                let f: fn(i32, i32) -> Option<i32> = $f;
                match f(second, top) {
                    Some(r) => w.s.int.push(r),
                    None => {
                        w.s.int.push(0);
                        w.free_int_top = true;
                    }
                }
                w.fired = true;
            }
            w
        }
    };
}
int_divop!(INTEGER_Slash, |a, b| a.checked_div(b));
// pinned by the repository's own test (-13 % 10 == -3): remainder of the truncated quotient
int_divop!(INTEGER_Pct, |a, b| if a == i32::MIN && b == -1 { Some(0) } else { a.checked_rem(b) });

macro_rules! int_cmp {
    ($name:ident, $f:expr) => {
        pub fn $name(b: &Snap) -> Want {
            let mut w = Want::new(b, M_INT, M_BOOL);
            if b.int.len >= 2 {
                let top = w.s.int.pop();
                let second = w.s.int.pop();
                let f: fn(i32, i32) -> bool = $f;
                w.s.boo.push(f(second, top));
                w.fired = true;
            }
            w
        }
    };
}
int_cmp!(INTEGER_Lt, |a, b| a < b);
int_cmp!(INTEGER_Gt, |a, b| a > b);
int_cmp!(INTEGER_Eq, |a, b| a == b);

pub fn INTEGER_ABS(b: &Snap) -> Want {
    let mut w = Want::new(b, M_INT, M_INT);
    if b.int.len >= 1 {
        let t = w.s.int.pop();
        match t.checked_abs() {
            Some(r) => w.s.int.push(r),
            None => {
                w.s.int.push(0);
                w.free_int_top = true;
            }
        }
        w.fired = true;
    }
    w
}
/// INTEGER.DDUP: Duplicates the two top items on the INTEGER stack while preserving its order.
pub fn INTEGER_DDUP(b: &Snap) -> Want {
    let mut w = Want::new(b, M_INT, M_INT);
    if b.int.len >= 2 {
        let t = b.int.top(0);
        let s = b.int.top(1);
        w.s.int.push(s);
        w.s.int.push(t);
        w.fired = true;
    }
    w
}
pub fn INTEGER_FROMBOOLEAN(b: &Snap) -> Want {
    let mut w = Want::new(b, M_BOOL, M_INT);
    if b.boo.len >= 1 {
        let t = w.s.boo.pop();
        w.s.int.push(if t { 1 } else { 0 });
        w.fired = true;
    }
    w
}
/// INTEGER.FROMFLOAT: truncation; out of range / NaN: any in-type value.
pub fn INTEGER_FROMFLOAT(b: &Snap) -> Want {
    let mut w = Want::new(b, M_FLT, M_INT);
    if b.flt.len >= 1 {
        let t = w.s.flt.pop();
        if t >= -2147483648.0 && t < 2147483648.0 {
            // -2^31 <= t < 2^31: truncation toward zero is representable
            w.s.int.push(t as i32);
        } else {
            // out of range or NaN: any in-type value
            w.s.int.push(0);
            w.free_int_top = true;
        }
        w.fired = true;
    }
    w
}

// ------------------------------------------------------------------------------------------------
// FLOAT

macro_rules! flt_binop {
    ($name:ident, $f:expr) => {
        pub fn $name(b: &Snap) -> Want {
            let mut w = Want::new(b, M_FLT, M_FLT);
            if b.flt.len >= 2 {
                let top = w.s.flt.pop();
                let second = w.s.flt.pop();
                let f: fn(f32, f32) -> f32 = $f;
                w.s.flt.push(f(second, top));
                w.fired = true;
            }
            w
        }
    };
}
flt_binop!(FLOAT_Plus, |a, b| a + b);
flt_binop!(FLOAT_Minus, |a, b| a - b);
flt_binop!(FLOAT_Star, |a, b| a * b);

/// MAX / MIN: with a NaN operand or +0/-0 either operand is an acceptable in-type answer.
macro_rules! flt_minmax {
    ($name:ident, $is_max:expr) => {
        pub fn $name(b: &Snap) -> Want {
            let mut w = Want::new(b, M_FLT, M_FLT);
            if b.flt.len >= 2 {
                let top = w.s.flt.pop();
                let second = w.s.flt.pop();
                if top.is_nan() || second.is_nan() || top == second {
                    w.s.flt.push(top);
                    w.free_flt_top = true; // checked separately: must be one of the operands
                } else if $is_max {
                    w.s.flt.push(if second > top { second } else { top });
                } else {
                    w.s.flt.push(if second < top { second } else { top });
                }
                w.fired = true;
            }
            w
        }
    };
}
flt_minmax!(FLOAT_MAX, true);
flt_minmax!(FLOAT_MIN, false);

/// FLOAT./ : operands consumed, one FLOAT pushed, nothing for a zero divisor. The quotient itself is
/// left free: CBMC's float-division encoding does not finish within the budget (measured), so the
/// value is outside the claim (operand order for division is checked on INTEGER./).
pub fn FLOAT_Slash(b: &Snap) -> Want {
    let mut w = Want::new(b, M_FLT, M_FLT);
    if b.flt.len >= 2 && b.flt.top(0) != 0.0 {
        w.s.flt.pop();
        w.s.flt.pop();
        w.s.flt.push(0.0);
        w.free_flt_top = true;
        w.fired = true;
    }
    w
}
/// FLOAT.%: value left free (CBMC's fmodf model is not exact); shapes asserted.
pub fn FLOAT_Pct(b: &Snap) -> Want {
    let mut w = Want::new(b, M_FLT, M_FLT);
    if b.flt.len >= 2 && b.flt.top(0) != 0.0 {
        w.s.flt.pop();
        w.s.flt.pop();
        w.s.flt.push(0.0);
        w.free_flt_top = true;
        w.fired = true;
    }
    w
}
macro_rules! flt_cmp {
    ($name:ident, $f:expr) => {
        pub fn $name(b: &Snap) -> Want {
            let mut w = Want::new(b, M_FLT, M_BOOL);
            if b.flt.len >= 2 {
                let top = w.s.flt.pop();
                let second = w.s.flt.pop();
                let f: fn(f32, f32) -> bool = $f;
                w.s.boo.push(f(second, top));
                w.fired = true;
            }
            w
        }
    };
}
flt_cmp!(FLOAT_Lt, |a, b| a < b);
flt_cmp!(FLOAT_Gt, |a, b| a > b);
flt_cmp!(FLOAT_Eq, |a, b| a == b);

/// SIN / COS / TAN / EXP: consume one FLOAT, push one FLOAT; the value is outside the claim.
macro_rules! flt_transc {
    ($name:ident) => {
        pub fn $name(b: &Snap) -> Want {
            let mut w = Want::new(b, M_FLT, M_FLT);
            if b.flt.len >= 1 {
                w.s.flt.pop();
                w.s.flt.push(0.0);
                w.free_flt_top = true;
                w.fired = true;
            }
            w
        }
    };
}
flt_transc!(FLOAT_SIN);
flt_transc!(FLOAT_COS);
flt_transc!(FLOAT_TAN);
flt_transc!(FLOAT_EXP);

pub fn FLOAT_FROMBOOLEAN(b: &Snap) -> Want {
    let mut w = Want::new(b, M_BOOL, M_FLT);
    if b.boo.len >= 1 {
        let t = w.s.boo.pop();
        w.s.flt.push(if t { 1.0 } else { 0.0 });
        w.fired = true;
    }
    w
}
pub fn FLOAT_FROMINTEGER(b: &Snap) -> Want {
    let mut w = Want::new(b, M_INT, M_FLT);
    if b.int.len >= 1 {
        let t = w.s.int.pop();
        w.s.flt.push(t as f32);
        w.fired = true;
    }
    w
}

// ------------------------------------------------------------------------------------------------
// NAME

pub fn NAME_Eq(b: &Snap) -> Want {
    let mut w = Want::new(b, M_NAME, M_BOOL);
    if b.name.len >= 2 {
        let top = w.s.name.pop();
        let second = w.s.name.pop();
        let mut e = top.len == second.len;
        let mut j = 0;
        while j < 8 {
            if top.b[j] != second.b[j] {
                e = false;
            }
            j += 1;
        }
        w.s.boo.push(e);
        w.fired = true;
    }
    w
}
/// NAME.CAT: second, a blank, then the top item ("the top item will be appended").
pub fn NAME_CAT(b: &Snap) -> Want {
    let mut w = Want::new(b, M_NAME, M_NAME);
    if b.name.len >= 2 {
        let top = w.s.name.pop();
        let second = w.s.name.pop();
        let mut r = NameVal { len: second.len + 1 + top.len, b: [0; 8] };
        let mut j = 0;
        while j < 8 {
            if j < second.len {
                r.b[j] = second.b[j];
            } else if j == second.len {
                r.b[j] = b' ';
            } else if j - second.len - 1 < top.len {
                r.b[j] = top.b[j - second.len - 1];
            }
            j += 1;
        }
        w.s.name.push(r);
        w.fired = true;
    }
    w
}
pub fn NAME_QUOTE(b: &Snap) -> Want {
    let mut w = Want::new(b, 0, M_FLAGS);
    w.s.quote = true;
    w.fired = true;
    w
}
pub fn NAME_SEND(b: &Snap) -> Want {
    let mut w = Want::new(b, 0, M_FLAGS);
    w.s.send = true;
    w.fired = true;
    w
}

// ------------------------------------------------------------------------------------------------
// CODE.FROM* and the CODE instructions that only inspect or move items

pub fn CODE_FROMINTEGER(b: &Snap) -> Want {
    let mut w = Want::new(b, M_INT, M_CODE);
    if b.int.len >= 1 {
        let t = w.s.int.pop();
        w.s.code.push(ItemSum { kind: 1, payload: t as i64 });
        w.fired = true;
    }
    w
}
pub fn CODE_FROMFLOAT(b: &Snap) -> Want {
    let mut w = Want::new(b, M_FLT, M_CODE);
    if b.flt.len >= 1 {
        let t = w.s.flt.pop();
        w.s.code.push(ItemSum { kind: 2, payload: t.to_bits() as i64 });
        w.fired = true;
    }
    w
}
pub fn CODE_FROMBOOLEAN(b: &Snap) -> Want {
    let mut w = Want::new(b, M_BOOL, M_CODE);
    if b.boo.len >= 1 {
        let t = w.s.boo.pop();
        w.s.code.push(ItemSum { kind: 3, payload: t as i64 });
        w.fired = true;
    }
    w
}
pub fn CODE_FROMNAME(b: &Snap) -> Want {
    let mut w = Want::new(b, M_NAME, M_CODE);
    if b.name.len >= 1 {
        let t = w.s.name.pop();
        w.s.code.push(ItemSum { kind: 4, payload: (t.len as i64) * 256 + t.b[0] as i64 });
        w.fired = true;
    }
    w
}
/// CODE.QUOTE: moves the top EXEC item onto the CODE stack.
pub fn CODE_QUOTE(b: &Snap) -> Want {
    let mut w = Want::new(b, M_EXEC, M_CODE);
    if b.exec.len >= 1 {
        let t = w.s.exec.pop();
        w.s.code.push(t);
        w.fired = true;
    }
    w
}
/// CODE.APPEND (as documented in this repository): a two-element list of the top two items.
pub fn CODE_APPEND(b: &Snap) -> Want {
    let mut w = Want::new(b, M_CODE, M_CODE);
    if b.code.len >= 2 {
        w.s.code.pop();
        w.s.code.pop();
        w.s.code.push(ItemSum { kind: 6, payload: 2 });
        w.fired = true;
    }
    w
}
pub fn CODE_ATOM(b: &Snap) -> Want {
    let mut w = Want::new(b, 0, M_BOOL);
    if b.code.len >= 1 {
        let k = b.code.top(0).kind;
        w.s.boo.push(k != 6);
        w.fired = true;
    }
    w
}
pub fn CODE_NULL(b: &Snap) -> Want {
    let mut w = Want::new(b, 0, M_BOOL);
    if b.code.len >= 1 {
        let t = b.code.top(0);
        w.s.boo.push(t.kind == 6 && t.payload == 0);
        w.fired = true;
    }
    w
}
pub fn CODE_LENGTH(b: &Snap) -> Want {
    let mut w = Want::new(b, 0, M_INT);
    if b.code.len >= 1 {
        let t = b.code.top(0);
        w.s.int.push(if t.kind == 6 { t.payload as i32 } else { 1 });
        w.fired = true;
    }
    w
}

// ------------------------------------------------------------------------------------------------
// INDEX

pub fn INDEX_CURRENT(b: &Snap) -> Want {
    let mut w = Want::new(b, 0, M_INT);
    if b.index.len >= 1 {
        w.s.int.push(b.index.top(0).0 as i32);
        w.fired = true;
    }
    w
}
/// INDEX.DESTINATION: Pushes the destination field of the top INDEX to the INTEGER stack.
pub fn INDEX_DESTINATION(b: &Snap) -> Want {
    let mut w = Want::new(b, 0, M_INT);
    if b.index.len >= 1 {
        w.s.int.push(b.index.top(0).1 as i32);
        w.fired = true;
    }
    w
}
/// INDEX.DEFINE: Pushes the top INTEGER as destination of a new index (negative values become 0).
pub fn INDEX_DEFINE(b: &Snap) -> Want {
    let mut w = Want::new(b, M_INT, M_INDEX);
    if b.int.len >= 1 {
        let t = w.s.int.pop();
        w.s.index.push((0, if t < 0 { 0 } else { t as usize }));
        w.fired = true;
    }
    w
}
pub fn INDEX_INCREASE(b: &Snap) -> Want {
    let mut w = Want::new(b, 0, M_INDEX);
    if b.index.len >= 1 {
        let (c, d) = b.index.top(0);
        if c < d {
            let k = w.s.index.len - 1;
            w.s.index.a[k] = (c + 1, d);
        }
        w.fired = true;
    }
    w
}
pub fn INDEX_POP(b: &Snap) -> Want {
    let mut w = Want::new(b, M_INDEX, M_INDEX);
    w.fired = g_pop(&mut w.s.index);
    w
}
pub fn INDEX_FLUSH(b: &Snap) -> Want {
    let mut w = Want::new(b, M_INDEX, M_INDEX);
    w.s.index.len = 0;
    w.fired = true;
    w
}

// ------------------------------------------------------------------------------------------------
// INPUT / OUTPUT depth-level instructions (contents: c17_io.rs)

pub fn INPUT_AVAILABLE(b: &Snap) -> Want {
    let mut w = Want::new(b, 0, M_BOOL);
    w.s.boo.push(b.input_len > 0);
    w.fired = true;
    w
}
pub fn INPUT_STACKDEPTH(b: &Snap) -> Want {
    let mut w = Want::new(b, 0, M_INT);
    w.s.int.push(b.input_len as i32);
    w.fired = true;
    w
}
pub fn OUTPUT_STACKDEPTH(b: &Snap) -> Want {
    let mut w = Want::new(b, 0, M_INT);
    w.s.int.push(b.output_len as i32);
    w.fired = true;
    w
}
pub fn GRAPH_STACKDEPTH(b: &Snap) -> Want {
    let mut w = Want::new(b, 0, M_INT);
    w.s.int.push(b.graph_len as i32);
    w.fired = true;
    w
}

/// CODE.SIZE on an atom is 1; on a list the point count is checked in c08_code.rs (value free here).
pub fn CODE_SIZE(b: &Snap) -> Want {
    let mut w = Want::new(b, 0, M_INT);
    if b.code.len >= 1 {
        w.s.int.push(1);
        if b.code.top(0).kind == 6 {
            w.free_int_top = true;
        }
        w.fired = true;
    }
    w
}

// ------------------------------------------------------------------------------------------------
// Vectors (C09). README rule for element-wise operations: the top vector, shifted by the offset, is
// combined into the second vector on the overlapping positions only:
//     for i in 0..len(top): j = i + offset; if 0 <= j < len(second): second[j] = second[j] op top[i]
// every other element of the second vector is unchanged; the result has the second vector's length.

pub type V<T> = Seq<T, NL>;

fn vclamp(idx: i32, len: usize) -> usize {
    // i32::max(i32::min(index, len - 1), 0)
    clamp(idx, len)
}

macro_rules! vec_get {
    ($name:ident, $vf:ident, $sf:ident, $vm:expr, $sm:expr) => {
        pub fn $name(b: &Snap) -> Want {
            let mut w = Want::new(b, M_INT, $sm);
            if b.int.len >= 1 && b.$vf.len >= 1 && b.$vf.top(0).len >= 1 {
                let idx = w.s.int.pop();
                let v = b.$vf.top(0);
                let e = v.a[vclamp(idx, v.len)];
                w.s.$sf.push(e);
                w.fired = true;
            }
            w
        }
    };
}
vec_get!(BOOLVECTOR_GET, bvec, boo, M_BVEC, M_BOOL);
vec_get!(INTVECTOR_GET, ivec, int, M_IVEC, M_INT);
vec_get!(FLOATVECTOR_GET, fvec, flt, M_FVEC, M_FLT);

pub fn BOOLVECTOR_SET(b: &Snap) -> Want {
    let mut w = Want::new(b, M_INT | M_BOOL, M_BVEC);
    if b.int.len >= 1 && b.boo.len >= 1 && b.bvec.len >= 1 && b.bvec.top(0).len >= 1 {
        let idx = w.s.int.pop();
        let e = w.s.boo.pop();
        let k = w.s.bvec.len - 1;
        let i = vclamp(idx, w.s.bvec.a[k].len);
        w.s.bvec.a[k].a[i] = e;
        w.fired = true;
    }
    w
}
/// INTVECTOR.SET: top INTEGER is the index, second INTEGER the new element.
pub fn INTVECTOR_SET(b: &Snap) -> Want {
    let mut w = Want::new(b, M_INT, M_IVEC);
    if b.int.len >= 2 && b.ivec.len >= 1 && b.ivec.top(0).len >= 1 {
        let idx = w.s.int.pop();
        let e = w.s.int.pop();
        let k = w.s.ivec.len - 1;
        let i = vclamp(idx, w.s.ivec.a[k].len);
        w.s.ivec.a[k].a[i] = e;
        w.fired = true;
    }
    w
}
pub fn FLOATVECTOR_SET(b: &Snap) -> Want {
    let mut w = Want::new(b, M_INT | M_FLT, M_FVEC);
    if b.int.len >= 1 && b.flt.len >= 1 && b.fvec.len >= 1 && b.fvec.top(0).len >= 1 {
        let idx = w.s.int.pop();
        let e = w.s.flt.pop();
        let k = w.s.fvec.len - 1;
        let i = vclamp(idx, w.s.fvec.a[k].len);
        w.s.fvec.a[k].a[i] = e;
        w.fired = true;
    }
    w
}

/// element-wise binary operation with offset on the top two vectors of a vector stack
macro_rules! vec_overlap {
    ($name:ident, $vf:ident, $vm:expr, $t:ty, $f:expr) => {
        pub fn $name(b: &Snap) -> Want {
            let mut w = Want::new(b, M_INT | $vm, $vm);
            if b.$vf.len >= 2 && b.int.len >= 1 {
                let top = w.s.$vf.pop();
                let mut second = w.s.$vf.pop();
                let offset = w.s.int.pop() as i64;
                let f: fn($t, $t) -> $t = $f;
                let mut i = 0;
                while i < NL {
                    if i < top.len {
                        let j = i as i64 + offset;
                        if j >= 0 && (j as usize) < second.len {
                            second.a[j as usize] = f(second.a[j as usize], top.a[i]);
                        }
                    }
                    i += 1;
                }
                w.s.$vf.push(second);
                w.fired = true;
            }
            w
        }
    };
}
vec_overlap!(BOOLVECTOR_AND, bvec, M_BVEC, bool, |a, b| a && b);
vec_overlap!(BOOLVECTOR_OR, bvec, M_BVEC, bool, |a, b| a || b);
vec_overlap!(FLOATVECTOR_Plus, fvec, M_FVEC, f32, |a, b| a + b);
vec_overlap!(FLOATVECTOR_Minus, fvec, M_FVEC, f32, |a, b| a - b);
vec_overlap!(FLOATVECTOR_Star, fvec, M_FVEC, f32, |a, b| a * b);

/// INTVECTOR + / -: an element whose exact result is not representable is left free.
macro_rules! ivec_overlap {
    ($name:ident, $f:expr) => {
        pub fn $name(b: &Snap) -> Want {
            let mut w = Want::new(b, M_INT | M_IVEC, M_IVEC);
            if b.ivec.len >= 2 && b.int.len >= 1 {
                let top = w.s.ivec.pop();
                let mut second = w.s.ivec.pop();
                let offset = w.s.int.pop() as i64;
                let f: fn(i32, i32) -> Option<i32> = $f;
                let mut i = 0;
                while i < NL {
                    if i < top.len {
                        let j = i as i64 + offset;
                        if j >= 0 && (j as usize) < second.len {
                            match f(second.a[j as usize], top.a[i]) {
                                Some(r) => second.a[j as usize] = r,
                                None => w.free_ivec_mask |= 1u32 << (j as u32),
                            }
                        }
                    }
                    i += 1;
                }
                w.s.ivec.push(second);
                w.fired = true;
            }
            w
        }
    };
}
ivec_overlap!(INTVECTOR_Plus, |a, b| a.checked_add(b));
ivec_overlap!(INTVECTOR_Minus, |a, b| a.checked_sub(b));

/// FLOATVECTOR./ : a zero divisor on an overlapping position => no result (operands may be consumed).
/// Quotient values are left free (float division does not finish under CBMC); length, operand
/// consumption and the zero-divisor guard are asserted.
pub fn FLOATVECTOR_Slash(b: &Snap) -> Want {
    let mut w = Want::new(b, M_INT | M_FVEC, M_FVEC);
    if b.fvec.len >= 2 && b.int.len >= 1 {
        let top = w.s.fvec.pop();
        let second = w.s.fvec.pop();
        let offset = w.s.int.pop() as i64;
        let mut zero = false;
        let mut i = 0;
        while i < NL {
            if i < top.len {
                let j = i as i64 + offset;
                if j >= 0 && (j as usize) < second.len && top.a[i] == 0.0 {
                    zero = true;
                }
            }
            i += 1;
        }
        if zero {
            w.s = *b;
        } else {
            w.s.fvec.push(second);
            w.free_fvec_top = true;
            w.fired = true;
        }
    }
    w
}

/// BOOLVECTOR.NOT: the vector shifted by the offset overlapped with itself: position j = i + offset
/// (0 <= i < len, 0 <= j < len) is negated (pinned by the repository's own test).
pub fn BOOLVECTOR_NOT(b: &Snap) -> Want {
    let mut w = Want::new(b, M_INT | M_BVEC, M_BVEC);
    if b.bvec.len >= 1 && b.int.len >= 1 {
        let mut v = w.s.bvec.pop();
        let offset = w.s.int.pop() as i64;
        let mut i = 0;
        while i < NL {
            if i < v.len {
                let j = i as i64 + offset;
                if j >= 0 && (j as usize) < v.len {
                    v.a[j as usize] = !v.a[j as usize];
                }
            }
            i += 1;
        }
        w.s.bvec.push(v);
        w.fired = true;
    }
    w
}

pub fn BOOLVECTOR_COUNT(b: &Snap) -> Want {
    let mut w = Want::new(b, 0, M_INT);
    if b.bvec.len >= 1 {
        let v = b.bvec.top(0);
        let mut n = 0;
        let mut i = 0;
        while i < NL {
            if i < v.len && v.a[i] {
                n += 1;
            }
            i += 1;
        }
        w.s.int.push(n);
        w.fired = true;
    }
    w
}

macro_rules! vec_equal {
    ($name:ident, $vf:ident, $vm:expr) => {
        pub fn $name(b: &Snap) -> Want {
            let mut w = Want::new(b, $vm, M_BOOL);
            if b.$vf.len >= 2 {
                let top = w.s.$vf.pop();
                let second = w.s.$vf.pop();
                let mut e = top.len == second.len;
                let mut i = 0;
                while i < NL {
                    if i < top.len && i < second.len && !(top.a[i] == second.a[i]) {
                        e = false;
                    }
                    i += 1;
                }
                w.s.boo.push(e);
                w.fired = true;
            }
            w
        }
    };
}
vec_equal!(BOOLVECTOR_EQUAL, bvec, M_BVEC);
vec_equal!(INTVECTOR_EQUAL, ivec, M_IVEC);
vec_equal!(FLOATVECTOR_EQUAL, fvec, M_FVEC);

macro_rules! vec_length {
    ($name:ident, $vf:ident) => {
        pub fn $name(b: &Snap) -> Want {
            let mut w = Want::new(b, 0, M_INT);
            if b.$vf.len >= 1 {
                w.s.int.push(b.$vf.top(0).len as i32);
                w.fired = true;
            }
            w
        }
    };
}
vec_length!(BOOLVECTOR_LENGTH, bvec);
vec_length!(INTVECTOR_LENGTH, ivec);
vec_length!(FLOATVECTOR_LENGTH, fvec);

/// ONES / ZEROS: size from the INTEGER stack; a vector of that length for size > 0, nothing otherwise.
macro_rules! vec_fill {
    ($name:ident, $vf:ident, $vm:expr, $val:expr, $zero:expr) => {
        pub fn $name(b: &Snap) -> Want {
            let mut w = Want::new(b, M_INT, $vm);
            if b.int.len >= 1 {
                let size = w.s.int.pop();
                if size > 0 {
                    let mut v = Seq::new($zero);
                    let mut i = 0;
                    while i < NL {
                        if (i as i32) < size {
                            v.a[i] = $val;
                        }
                        i += 1;
                    }
                    v.len = size as usize;
                    w.s.$vf.push(v);
                }
                w.fired = true;
            }
            w
        }
    };
}
vec_fill!(BOOLVECTOR_ONES, bvec, M_BVEC, true, false);
vec_fill!(BOOLVECTOR_ZEROS, bvec, M_BVEC, false, false);
vec_fill!(INTVECTOR_ONES, ivec, M_IVEC, 1, 0);
vec_fill!(INTVECTOR_ZEROS, ivec, M_IVEC, 0, 0);
vec_fill!(FLOATVECTOR_ONES, fvec, M_FVEC, 1.0, 0.0);
vec_fill!(FLOATVECTOR_ZEROS, fvec, M_FVEC, 0.0, 0.0);

/// ROTATE: elements move one position to the left, the first is dropped, the last comes from the
/// scalar stack. Needs a scalar and a non-empty vector.
macro_rules! vec_rotate {
    ($name:ident, $vf:ident, $vm:expr, $sf:ident, $sm:expr) => {
        pub fn $name(b: &Snap) -> Want {
            let mut w = Want::new(b, $sm, $vm);
            if b.$sf.len >= 1 && b.$vf.len >= 1 && b.$vf.top(0).len >= 1 {
                let e = w.s.$sf.pop();
                let k = w.s.$vf.len - 1;
                let n = w.s.$vf.a[k].len;
                let mut i = 0;
                while i + 1 < n {
                    w.s.$vf.a[k].a[i] = w.s.$vf.a[k].a[i + 1];
                    i += 1;
                }
                w.s.$vf.a[k].a[n - 1] = e;
                w.fired = true;
            }
            w
        }
    };
}
vec_rotate!(BOOLVECTOR_ROTATE, bvec, M_BVEC, boo, M_BOOL);
vec_rotate!(INTVECTOR_ROTATE, ivec, M_IVEC, int, M_INT);
vec_rotate!(FLOATVECTOR_ROTATE, fvec, M_FVEC, flt, M_FLT);

fn sort_i32(v: &mut V<i32>, desc: bool) {
    let mut i = 1;
    while i < NL {
        let mut j = i;
        while j > 0 {
            if j < v.len && ((!desc && v.a[j - 1] > v.a[j]) || (desc && v.a[j - 1] < v.a[j])) {
                let t = v.a[j];
                v.a[j] = v.a[j - 1];
                v.a[j - 1] = t;
            }
            j -= 1;
        }
        i += 1;
    }
}
fn sort_bool(v: &mut V<bool>, desc: bool) {
    let mut n = 0;
    let mut i = 0;
    while i < NL {
        if i < v.len && v.a[i] {
            n += 1;
        }
        i += 1;
    }
    i = 0;
    while i < NL {
        if i < v.len {
            v.a[i] = if desc { i < n } else { i >= v.len - n };
        }
        i += 1;
    }
}
fn sort_f32(v: &mut V<f32>, desc: bool) {
    let mut i = 1;
    while i < NL {
        let mut j = i;
        while j > 0 {
            if j < v.len && ((!desc && v.a[j - 1] > v.a[j]) || (desc && v.a[j - 1] < v.a[j])) {
                let t = v.a[j];
                v.a[j] = v.a[j - 1];
                v.a[j - 1] = t;
            }
            j -= 1;
        }
        i += 1;
    }
}
fn has_nan(v: &V<f32>) -> bool {
    let mut r = false;
    let mut i = 0;
    while i < NL {
        if i < v.len && v.a[i].is_nan() {
            r = true;
        }
        i += 1;
    }
    r
}
macro_rules! vec_sort {
    ($name:ident, $vf:ident, $vm:expr, $sort:ident, $desc:expr) => {
        pub fn $name(b: &Snap) -> Want {
            let mut w = Want::new(b, 0, $vm);
            if b.$vf.len >= 1 {
                let k = w.s.$vf.len - 1;
                $sort(&mut w.s.$vf.a[k], $desc);
                w.fired = true;
            }
            w
        }
    };
}
vec_sort!(BOOLVECTOR_SORTStarASC, bvec, M_BVEC, sort_bool, false);
vec_sort!(BOOLVECTOR_SORTStarDESC, bvec, M_BVEC, sort_bool, true);
vec_sort!(INTVECTOR_SORTStarASC, ivec, M_IVEC, sort_i32, false);
vec_sort!(INTVECTOR_SORTStarDESC, ivec, M_IVEC, sort_i32, true);
/// float sort: with a NaN element the order is unspecified (values free, length kept);
/// equal-comparing elements (+0.0 / -0.0) may appear in either order (feq treats them as equal).
pub fn FLOATVECTOR_SORTStarASC(b: &Snap) -> Want {
    let mut w = Want::new(b, 0, M_FVEC);
    if b.fvec.len >= 1 {
        let k = w.s.fvec.len - 1;
        if has_nan(&w.s.fvec.a[k]) {
            w.free_fvec_top = true;
        } else {
            sort_f32(&mut w.s.fvec.a[k], false);
        }
        w.fired = true;
    }
    w
}
pub fn FLOATVECTOR_SORTStarDESC(b: &Snap) -> Want {
    let mut w = Want::new(b, 0, M_FVEC);
    if b.fvec.len >= 1 {
        let k = w.s.fvec.len - 1;
        if has_nan(&w.s.fvec.a[k]) {
            w.free_fvec_top = true;
        } else {
            sort_f32(&mut w.s.fvec.a[k], true);
        }
        w.fired = true;
    }
    w
}

pub fn INTVECTOR_APPEND(b: &Snap) -> Want {
    let mut w = Want::new(b, M_INT, M_IVEC);
    if b.ivec.len >= 1 && b.int.len >= 1 {
        let e = w.s.int.pop();
        let k = w.s.ivec.len - 1;
        w.s.ivec.a[k].push(e);
        w.fired = true;
    }
    w
}
pub fn FLOATVECTOR_APPEND(b: &Snap) -> Want {
    let mut w = Want::new(b, M_FLT, M_FVEC);
    if b.fvec.len >= 1 && b.flt.len >= 1 {
        let e = w.s.flt.pop();
        let k = w.s.fvec.len - 1;
        w.s.fvec.a[k].push(e);
        w.fired = true;
    }
    w
}
/// INTVECTOR.BOOLINDEX: pops the BOOLVECTOR, pushes the indices of its true values.
pub fn INTVECTOR_BOOLINDEX(b: &Snap) -> Want {
    let mut w = Want::new(b, M_BVEC, M_IVEC);
    if b.bvec.len >= 1 {
        let v = w.s.bvec.pop();
        let mut r: V<i32> = Seq::new(0);
        let mut i = 0;
        while i < NL {
            if i < v.len && v.a[i] {
                r.push(i as i32);
            }
            i += 1;
        }
        w.s.ivec.push(r);
        w.fired = true;
    }
    w
}
pub fn INTVECTOR_CONTAINS(b: &Snap) -> Want {
    let mut w = Want::new(b, M_INT | M_IVEC, M_BOOL);
    if b.int.len >= 1 && b.ivec.len >= 1 {
        let e = w.s.int.pop();
        let v = w.s.ivec.pop();
        let mut c = false;
        let mut i = 0;
        while i < NL {
            if i < v.len && v.a[i] == e {
                c = true;
            }
            i += 1;
        }
        w.s.boo.push(c);
        w.fired = true;
    }
    w
}
pub fn INTVECTOR_EMPTY(b: &Snap) -> Want {
    let mut w = Want::new(b, 0, M_IVEC);
    w.s.ivec.push(Seq::new(0));
    w.fired = true;
    w
}
pub fn FLOATVECTOR_EMPTY(b: &Snap) -> Want {
    let mut w = Want::new(b, 0, M_FVEC);
    w.s.fvec.push(Seq::new(0.0));
    w.fired = true;
    w
}
/// INTVECTOR.FROMINT: top INTEGER n (clamped to 0..remaining depth); the next n integers become the
/// vector, the former top of them last.
pub fn INTVECTOR_FROMINT(b: &Snap) -> Want {
    let mut w = Want::new(b, M_INT, M_IVEC);
    if b.int.len >= 1 {
        let n = w.s.int.pop();
        let size = w.s.int.len;
        let k = if n < 0 { 0 } else if (n as usize) > size { size } else { n as usize };
        let mut r: V<i32> = Seq::new(0);
        let base = size - k;
        let mut i = 0;
        while i < NL {
            if i < k {
                r.push(w.s.int.a[base + i]);
            }
            i += 1;
        }
        w.s.int.len = base;
        w.s.ivec.push(r);
        w.fired = true;
    }
    w
}
/// MEAN: exact sum / length; empty vector or a sum outside i32: value free.
pub fn INTVECTOR_MEAN(b: &Snap) -> Want {
    let mut w = Want::new(b, 0, M_FLT);
    if b.ivec.len >= 1 {
        let v = b.ivec.top(0);
        let mut sum: i64 = 0;
        let mut i = 0;
        while i < NL {
            if i < v.len {
                sum += v.a[i] as i64;
            }
            i += 1;
        }
        if v.len == 0 || sum > i32::MAX as i64 || sum < i32::MIN as i64 {
            w.s.flt.push(0.0);
            w.free_flt_top = true;
        } else {
            w.s.flt.push((sum as i32) as f32 / v.len as f32);
        }
        w.fired = true;
    }
    w
}
fn fsum(v: &V<f32>) -> f32 {
    let mut sum: f32 = 0.0;
    let mut i = 0;
    while i < NL {
        if i < v.len {
            sum += v.a[i];
        }
        i += 1;
    }
    sum
}
pub fn FLOATVECTOR_MEAN(b: &Snap) -> Want {
    let mut w = Want::new(b, 0, M_FLT);
    if b.fvec.len >= 1 {
        let v = b.fvec.top(0);
        if v.len == 0 {
            w.s.flt.push(0.0);
            w.free_flt_top = true;
        } else {
            w.s.flt.push(fsum(&v) / v.len as f32);
        }
        w.fired = true;
    }
    w
}
pub fn INTVECTOR_SUM(b: &Snap) -> Want {
    let mut w = Want::new(b, 0, M_INT);
    if b.ivec.len >= 1 {
        let v = b.ivec.top(0);
        let mut sum: i64 = 0;
        let mut i = 0;
        while i < NL {
            if i < v.len {
                sum += v.a[i] as i64;
            }
            i += 1;
        }
        if sum > i32::MAX as i64 || sum < i32::MIN as i64 {
            w.s.int.push(0);
            w.free_int_top = true;
        } else {
            w.s.int.push(sum as i32);
        }
        w.fired = true;
    }
    w
}
pub fn FLOATVECTOR_SUM(b: &Snap) -> Want {
    let mut w = Want::new(b, 0, M_FLT);
    if b.fvec.len >= 1 {
        let v = b.fvec.top(0);
        w.s.flt.push(fsum(&v));
        w.fired = true;
    }
    w
}
pub fn INTVECTOR_REMOVE(b: &Snap) -> Want {
    let mut w = Want::new(b, M_INT, M_IVEC);
    if b.ivec.len >= 1 && b.int.len >= 1 {
        let e = w.s.int.pop();
        let k = w.s.ivec.len - 1;
        let old = w.s.ivec.a[k];
        let mut r: V<i32> = Seq::new(0);
        let mut i = 0;
        while i < NL {
            if i < old.len && old.a[i] != e {
                r.push(old.a[i]);
            }
            i += 1;
        }
        w.s.ivec.a[k] = r;
        w.fired = true;
    }
    w
}
/// INTVECTOR.SET*INSERT: creates an empty vector when the INTVECTOR stack is empty (documented), then
/// appends the top INTEGER unless already contained.
pub fn INTVECTOR_SETStarINSERT(b: &Snap) -> Want {
    let mut w = Want::new(b, M_INT, M_IVEC);
    if w.s.ivec.len == 0 {
        w.s.ivec.push(Seq::new(0));
    }
    if b.int.len >= 1 {
        let e = w.s.int.pop();
        let k = w.s.ivec.len - 1;
        let v = w.s.ivec.a[k];
        let mut c = false;
        let mut i = 0;
        while i < NL {
            if i < v.len && v.a[i] == e {
                c = true;
            }
            i += 1;
        }
        if !c {
            w.s.ivec.a[k].push(e);
        }
    }
    w.fired = true;
    w
}
pub fn FLOATVECTOR_StarSCALAR(b: &Snap) -> Want {
    let mut w = Want::new(b, M_FLT, M_FVEC);
    if b.flt.len >= 1 && b.fvec.len >= 1 {
        let f = w.s.flt.pop();
        let k = w.s.fvec.len - 1;
        let mut i = 0;
        while i < NL {
            if i < w.s.fvec.a[k].len {
                w.s.fvec.a[k].a[i] = w.s.fvec.a[k].a[i] * f;
            }
            i += 1;
        }
        w.fired = true;
    }
    w
}
/// FLOATVECTOR.SINE: three FLOATs and the length; element values (sin) are outside the claim.
pub fn FLOATVECTOR_SINE(b: &Snap) -> Want {
    let mut w = Want::new(b, M_FLT | M_INT, M_FVEC);
    if b.flt.len >= 3 && b.int.len >= 1 {
        w.s.flt.pop();
        w.s.flt.pop();
        w.s.flt.pop();
        let size = w.s.int.pop();
        let mut v: V<f32> = Seq::new(0.0);
        v.len = if size < 0 { 0 } else { size as usize };
        w.s.fvec.push(v);
        w.free_fvec_top = true;
        w.fired = true;
    }
    w
}

// ------------------------------------------------------------------------------------------------
// INPUT / OUTPUT queues (C17): messages are consumed strictly first-in first-out, written in program order

/// INPUT.READ: pushes a copy of the oldest message (body -> BOOLVECTOR, header -> INTVECTOR); the
/// message stays in the queue.
pub fn INPUT_READ(b: &Snap) -> Want {
    let mut w = Want::new(b, 0, M_BVEC | M_IVEC);
    if b.inq.len >= 1 {
        w.s.bvec.push(b.inq.a[0].b);
        w.s.ivec.push(b.inq.a[0].h);
        w.fired = true;
    }
    w
}
/// INPUT.GET: pushes bit n (clamped) of the oldest message's body; n from the INTEGER stack.
pub fn INPUT_GET(b: &Snap) -> Want {
    let mut w = Want::new(b, M_INT, M_BOOL);
    if b.int.len >= 1 && b.inq.len >= 1 && b.inq.a[0].b.len >= 1 {
        let idx = w.s.int.pop();
        let body = b.inq.a[0].b;
        w.s.boo.push(body.a[clamp(idx, body.len)]);
        w.fired = true;
    }
    w
}
/// INPUT.NEXT: removes the oldest message.
pub fn INPUT_NEXT(b: &Snap) -> Want {
    let mut w = Want::new(b, M_IN, M_IN);
    if b.inq.len >= 1 {
        w.s.inq.remove_idx(0);
        w.s.input_len -= 1;
    }
    w.fired = true;
    w
}
pub fn OUTPUT_FLUSH(b: &Snap) -> Want {
    let mut w = Want::new(b, M_OUT, M_OUT);
    w.s.outq.len = 0;
    w.s.output_len = 0;
    w.fired = true;
    w
}
/// OUTPUT.WRITE: header from INTVECTOR, body from BOOLVECTOR, enqueued as the newest message.
/// On a full queue the plain push is ignored (buffer contract); the operands are consumed.
pub fn OUTPUT_WRITE(b: &Snap) -> Want {
    let mut w = Want::new(b, M_BVEC | M_IVEC, M_OUT);
    if b.bvec.len >= 1 && b.ivec.len >= 1 {
        let body = w.s.bvec.pop();
        let header = w.s.ivec.pop();
        if b.outq.len < 2 {
            // harness output queue capacity is 2
            w.s.outq.push(MsgSnap { h: header, b: body });
            w.s.output_len += 1;
        }
        w.fired = true;
    }
    w
}

// ------------------------------------------------------------------------------------------------
// LIST.NEIGHBOR*IDS (C20): operands clamped, then the brute-force neighbourhood of topo_ref.rs

/// INTEGER stack: top = total size, second = centre index, third = number of dimensions;
/// FLOAT stack: radius. size = max(size,0); index clamped into 0..size-1; dimensions clamped into
/// 0..size; radius = max(radius, 0) (NaN counts as 0).
pub fn LIST_NEIGHBORStarIDS(b: &Snap) -> Want {
    use crate::topo_ref::ref_member;
    let mut w = Want::new(b, M_INT | M_FLT, M_IVEC);
    if b.int.len >= 3 && b.flt.len >= 1 {
        let size_raw = w.s.int.pop();
        let index_raw = w.s.int.pop();
        let dims_raw = w.s.int.pop();
        let f = w.s.flt.pop();
        let size = if size_raw < 0 { 0 } else { size_raw };
        let index = clamp(index_raw, size as usize);
        let dims = {
            let m = if dims_raw < size { dims_raw } else { size };
            if m < 0 { 0 } else { m as usize }
        };
        let radius = if f > 0.0 { f } else { 0.0 };
        if size >= 1 && dims >= 1 {
            let n = size as usize;
            let mut r: Seq<i32, NL> = Seq::new(0);
            let mut j = 0;
            while j < NL {
                if j < n && ref_member(n, dims, index, j, radius) {
                    r.push(j as i32);
                }
                j += 1;
            }
            w.s.ivec.push(r);
        }
        w.fired = true;
    }
    w
}
