//! C16 — PushStack<i32> behaves like a plain sequence with position 0 at the top.
//!
//! (1) one-operation obligations: from an arbitrary stack (capacity CAP concrete, length and
//!     contents symbolic) call one public method with arbitrary arguments (positions are any usize)
//!     and compare result + contents with the array model `M`. Every reachable representation
//!     (a Vec of length <= CAP) is in the pre-state set, so this is the inductive step.
//! (2) K-step symbolic operation sequences from the empty stack against the model.
//! Not covered: to_string (core::fmt), element type Item.
use crate::gen::bounds::{STK_CAP as CAP, STK_SEQ};
use crate::stubs;
use pushr::push::stack::PushStack;

pub const MCAP: usize = CAP + 3;

/// Reference model: a[0] is the bottom, a[len-1] the top.
#[derive(Clone, Copy)]
pub struct M {
    pub a: [i32; MCAP],
    pub len: usize,
}

impl M {
    fn at(&self, pos: usize) -> Option<i32> {
        if pos < self.len {
            Some(self.a[self.len - 1 - pos])
        } else {
            None
        }
    }
    fn push(&mut self, v: i32) {
        self.a[self.len] = v;
        self.len += 1;
    }
    fn pop(&mut self) -> Option<i32> {
        if self.len == 0 {
            None
        } else {
            self.len -= 1;
            Some(self.a[self.len])
        }
    }
    /// remove the element at vec index k (0 = bottom)
    fn remove_idx(&mut self, k: usize) -> i32 {
        let v = self.a[k];
        let mut i = 0;
        while i < MCAP - 1 {
            if i >= k && i + 1 < self.len {
                self.a[i] = self.a[i + 1];
            }
            i += 1;
        }
        self.len -= 1;
        v
    }
    /// insert at vec index k (0 = bottom)
    fn insert_idx(&mut self, k: usize, v: i32) {
        let mut i = MCAP - 1;
        while i > 0 {
            if i > k && i <= self.len {
                self.a[i] = self.a[i - 1];
            }
            i -= 1;
        }
        self.a[k] = v;
        self.len += 1;
    }
}

/// Stack of concrete length `len` (symbolic contents). Lengths are enumerated concretely by the
/// harnesses (0..=CAP): a symbolic Vec length makes CBMC's memmove model (Vec::remove/insert) blow up.
pub fn sym_stack(len: usize) -> (PushStack<i32>, M) {
    let mut v: Vec<i32> = Vec::with_capacity(CAP + 3);
    let mut m = M { a: [0; MCAP], len };
    let mut i = 0;
    while i < len {
        let x: i32 = kani::any();
        v.push(x);
        m.a[i] = x;
        i += 1;
    }
    (PushStack::from_vec(v), m)
}

pub fn same(s: &PushStack<i32>, m: &M) -> bool {
    if s.size() != m.len {
        return false;
    }
    let mut i = 0;
    while i < MCAP {
        let got = s.get(i).copied();
        if got != m.at(i) {
            return false;
        }
        i += 1;
    }
    true
}

macro_rules! h {
    ($name:ident, $body:expr) => {
        #[kani::proof]
        #[kani::unwind(10)]
        pub fn $name() {
            let f: fn(&mut PushStack<i32>, &mut M) = $body;
            let mut len = 0;
            while len <= CAP {
                let (mut s, mut m) = sym_stack(len);
                f(&mut s, &mut m);
                assert!(same(&s, &m), "contents differ from the sequence model");
                std::mem::forget(s);
                len += 1;
            }
            kani::cover!(true, "reached end");
        }
    };
}

// The from_vec + get + size link (everything else is compared through get/size).
#[kani::proof]
#[kani::unwind(10)]
pub fn c16_op_get_size() {
    let mut len = 0;
    while len <= CAP {
        let (s, m) = sym_stack(len);
        assert!(s.size() == m.len);
        let i: usize = kani::any();
        let got = s.get(i).copied();
        assert!(got == m.at(i), "get(i) must be the i-th element from the top, None when out of range");
        kani::cover!(got.is_some(), "in range");
        kani::cover!(got.is_none(), "out of range");
        std::mem::forget(s);
        len += 1;
    }
}

h!(c16_op_push, |s, m| {
    let v: i32 = kani::any();
    s.push(v);
    m.push(v);
});

h!(c16_op_pop, |s, m| {
    let r = s.pop();
    let e = m.pop();
    assert!(r == e, "pop returns the top element or None");
});

h!(c16_op_push_front, |s, m| {
    let v: i32 = kani::any();
    s.push_front(v);
    m.insert_idx(0, v);
});

h!(c16_op_pop_front, |s, m| {
    let r = s.pop_front();
    let e = if m.len == 0 { None } else { Some(m.remove_idx(0)) };
    assert!(r == e, "pop_front returns the bottom element or None");
});

h!(c16_op_get_mut, |s, m| {
    let i: usize = kani::any();
    let v: i32 = kani::any();
    match s.get_mut(i) {
        Some(r) => {
            assert!(i < m.len, "get_mut out of range must be None");
            assert!(Some(*r) == m.at(i));
            *r = v;
            let k = m.len - 1 - i;
            m.a[k] = v;
        }
        None => assert!(i >= m.len, "get_mut in range must be Some"),
    }
});

h!(c16_op_copy, |s, m| {
    let i: usize = kani::any();
    assert!(s.copy(i) == m.at(i), "copy(i) is the i-th element from the top, None when out of range");
});

h!(c16_op_replace, |s, m| {
    let i: usize = kani::any();
    kani::assume(i < usize::MAX - 8);
    let v: i32 = kani::any();
    let r = s.replace(i, v);
    if i < m.len {
        assert!(r == Ok(()));
        let k = m.len - 1 - i;
        m.a[k] = v;
    } else {
        assert!(r == Err(i - m.len + 1), "replace out of range reports the offset");
    }
});

h!(c16_op_remove, |s, m| {
    let i: usize = kani::any();
    s.remove(i);
    if i < m.len {
        let k = m.len - 1 - i;
        m.remove_idx(k);
    }
});

h!(c16_op_yank, |s, m| {
    let i: usize = kani::any();
    s.yank(i);
    if i < m.len {
        let k = m.len - 1 - i;
        let v = m.remove_idx(k);
        m.push(v);
    }
});

h!(c16_op_shove, |s, m| {
    let i: usize = kani::any();
    s.shove(i);
    if i < m.len {
        // the old top ends up at position i from the top
        let v = m.pop().unwrap();
        let k = m.len - i;
        m.insert_idx(k, v);
    }
});

h!(c16_op_reverse, |s, m| {
    s.reverse();
    let old = *m;
    let mut i = 0;
    while i < MCAP {
        if i < old.len {
            m.a[i] = old.a[old.len - 1 - i];
        }
        i += 1;
    }
});

h!(c16_op_flush, |s, m| {
    s.flush();
    m.len = 0;
});

h!(c16_op_last_eq, |s, m| {
    let v: i32 = kani::any();
    let r = s.last_eq(&v);
    assert!(r == (m.at(0) == Some(v)), "last_eq compares with the top element");
});

h!(c16_op_bottom_mut, |s, m| {
    let v: i32 = kani::any();
    match s.bottom_mut() {
        Some(r) => {
            assert!(m.len > 0 && *r == m.a[0]);
            *r = v;
            m.a[0] = v;
        }
        None => assert!(m.len == 0),
    }
});

h!(c16_op_swap_inrange, |s, m| {
    // raw Vec::swap on storage indices; only in-range indices are part of the claim
    if m.len > 0 {
        let i: usize = kani::any();
        let j: usize = kani::any();
        kani::assume(i < m.len && j < m.len);
        s.swap(i, j);
        let t = m.a[i];
        m.a[i] = m.a[j];
        m.a[j] = t;
    }
});

/// pop_vec / copy_vec / push_vec: the count is enumerated concretely 0..=CAP+1 (a symbolic count is a
/// symbolic allocation size, which CBMC cannot handle); one extra symbolic count covers "any n > size".
macro_rules! hn {
    ($name:ident, $len:expr, $body:expr) => {
        #[kani::proof]
        #[kani::unwind(10)]
        pub fn $name() {
            let f: fn(&mut PushStack<i32>, &mut M, usize) = $body;
            let len: usize = $len;
            let mut n = if len > CAP { len + 3 } else { 0 };
            while n <= len + 2 {
                let (mut s, mut m) = sym_stack(len);
                let nn = if n == len + 2 {
                    let big: usize = kani::any();
                    kani::assume(big > len);
                    big
                } else {
                    n
                };
                f(&mut s, &mut m, nn);
                assert!(same(&s, &m), "contents differ from the sequence model");
                std::mem::forget(s);
                n += 1;
            }
            kani::cover!(true, "reached end");
        }
    };
}

fn pop_vec_body(s: &mut PushStack<i32>, m: &mut M, n: usize) {
    let r = s.pop_vec(n);
    match r {
        None => assert!(n > m.len, "pop_vec(n) with n <= size must succeed"),
        Some(v) => {
            assert!(n <= m.len, "pop_vec(n) with n > size must be None");
            assert!(v.len() == n);
            let base = m.len - n;
            let mut i = 0;
            while i < n {
                assert!(v[i] == m.a[base + i], "pop_vec keeps order, last element is the top");
                i += 1;
            }
            m.len = base;
            std::mem::forget(v);
        }
    }
}
fn copy_vec_body(s: &mut PushStack<i32>, m: &mut M, n: usize) {
    let r = s.copy_vec(n);
    match r {
        None => assert!(n > m.len, "copy_vec(n) with n <= size must succeed"),
        Some(v) => {
            assert!(n <= m.len, "copy_vec(n) with n > size must be None");
            assert!(v.len() == n);
            let base = m.len - n;
            let mut i = 0;
            while i < n {
                assert!(v[i] == m.a[base + i], "copy_vec keeps order, last element is the top");
                i += 1;
            }
            std::mem::forget(v);
        }
    }
}
hn!(c16_op_pop_vec_len0, 0, pop_vec_body);
hn!(c16_op_pop_vec_len1, 1, pop_vec_body);
hn!(c16_op_pop_vec_len2, 2, pop_vec_body);
hn!(c16_op_pop_vec_len3, 3, pop_vec_body);
hn!(c16_op_pop_vec_len4, 4, pop_vec_body);
hn!(c16_op_pop_vec_len5, 5, pop_vec_body);
hn!(c16_op_copy_vec_len0, 0, copy_vec_body);
hn!(c16_op_copy_vec_len1, 1, copy_vec_body);
hn!(c16_op_copy_vec_len2, 2, copy_vec_body);
hn!(c16_op_copy_vec_len3, 3, copy_vec_body);
hn!(c16_op_copy_vec_len4, 4, copy_vec_body);
hn!(c16_op_copy_vec_len5, 5, copy_vec_body);

#[kani::proof]
#[kani::unwind(10)]
pub fn c16_op_push_vec() {
    let mut len = 0;
    while len <= CAP {
        let mut n = 0;
        while n <= 3 {
            let (mut s, mut m) = sym_stack(len);
            let mut v: Vec<i32> = Vec::with_capacity(3);
            let mut i = 0;
            while i < n {
                let x: i32 = kani::any();
                v.push(x);
                m.push(x);
                i += 1;
            }
            s.push_vec(v);
            assert!(same(&s, &m), "push_vec: last element of the argument becomes the top");
            std::mem::forget(s);
            n += 1;
        }
        len += 1;
    }
    kani::cover!(true, "reached end");
}

#[kani::proof]
#[kani::unwind(10)]
#[kani::stub(<i32 as std::string::ToString>::to_string, stubs::i32_to_string)]
pub fn c16_op_equal_at() {
    let mut len = 0;
    while len <= CAP {
        let (s, m) = sym_stack(len);
        let i: usize = kani::any();
        let v: i32 = kani::any();
        let r = s.equal_at(i, &v);
        match m.at(i) {
            Some(x) => assert!(r == Some(x == v), "equal_at in range compares the i-th element from the top"),
            None => assert!(r.is_none(), "equal_at out of range must be None"),
        }
        kani::cover!(i == m.len, "position == size reached");
        std::mem::forget(s);
        len += 1;
    }
}

#[kani::proof]
#[kani::unwind(10)]
pub fn c16_new_is_empty() {
    let s: PushStack<i32> = PushStack::new();
    assert!(s.size() == 0 && s.get(0).is_none() && s.copy(0).is_none());
    let mut s = s;
    assert!(s.pop().is_none() && s.pop_front().is_none());
    assert!(s.pop_vec(0).map(|v| v.len()) == Some(0));
}

// K-step operation sequences are generated by tools/gen.py into gen/c16_seq.rs (operation kinds
// drawn from VERIF_SEED and kept concrete so that lengths stay concrete; values and positions symbolic).

// ---- step functions used by the generated sequences (gen/c16_seq.rs) --------------------------
pub fn seq_push(s: &mut PushStack<i32>, m: &mut M) {
    let v: i32 = kani::any();
    s.push(v);
    m.push(v);
}
pub fn seq_pop(s: &mut PushStack<i32>, m: &mut M) {
    let r = s.pop();
    assert!(r == m.pop(), "pop returns the top element or None");
}
pub fn seq_push_front(s: &mut PushStack<i32>, m: &mut M) {
    let v: i32 = kani::any();
    s.push_front(v);
    m.insert_idx(0, v);
}
pub fn seq_pop_front(s: &mut PushStack<i32>, m: &mut M) {
    let r = s.pop_front();
    let e = if m.len == 0 { None } else { Some(m.remove_idx(0)) };
    assert!(r == e, "pop_front returns the bottom element or None");
}
/// positions of yank / shove / remove in generated sequences are concrete (drawn by the generator): two
/// symbolic positions in a row are two memmoves of symbolic size; the one-step obligations above keep
/// the position fully symbolic.
pub fn seq_yank(s: &mut PushStack<i32>, m: &mut M, i: usize) {
    s.yank(i);
    if i < m.len {
        let k = m.len - 1 - i;
        let x = m.remove_idx(k);
        m.push(x);
    }
}
pub fn seq_shove(s: &mut PushStack<i32>, m: &mut M, i: usize) {
    s.shove(i);
    if i < m.len {
        let x = m.pop().unwrap();
        let k = m.len - i;
        m.insert_idx(k, x);
    }
}
pub fn seq_remove(s: &mut PushStack<i32>, m: &mut M, i: usize) {
    s.remove(i);
    if i < m.len {
        let k = m.len - 1 - i;
        m.remove_idx(k);
    }
}
pub fn seq_replace(s: &mut PushStack<i32>, m: &mut M) {
    let i: usize = kani::any();
    kani::assume(i < usize::MAX - 8);
    let v: i32 = kani::any();
    let r = s.replace(i, v);
    if i < m.len {
        assert!(r == Ok(()));
        let k = m.len - 1 - i;
        m.a[k] = v;
    } else {
        assert!(r == Err(i - m.len + 1), "replace out of range reports the offset");
    }
}
pub fn seq_copy(s: &mut PushStack<i32>, m: &mut M) {
    let i: usize = kani::any();
    assert!(s.copy(i) == m.at(i), "copy(i) is the i-th element from the top");
}
pub fn seq_get(s: &mut PushStack<i32>, m: &mut M) {
    let i: usize = kani::any();
    assert!(s.get(i).copied() == m.at(i), "get(i) is the i-th element from the top");
}
