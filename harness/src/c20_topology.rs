//! C20 — neighbourhood geometry. `f32::powf` is replaced by a lookup table generated on every run
//! from the real libm for exactly the arguments this bounded domain produces (gen/libm_table.rs).
use crate::topo_ref::*;
use pushr::push::topology::Topology;

/// decompose_index is a bijection on the hypercube: digits < edge, sum digit_k * edge^k == index.
#[kani::proof]
#[kani::unwind(6)]
pub fn c20_decompose_bijection() {
    let mut e = 1;
    while e <= 4 {
        let mut d = 1;
        while d <= 3 {
            let total = ipow(e, d);
            let i: usize = kani::any();
            kani::assume(i < total);
            let r = Topology::decompose_index(&i, &e, &d);
            assert!(r.is_some(), "decompose_index must succeed inside the hypercube");
            let v = r.unwrap();
            assert!(v.len() == d, "one coordinate per dimension");
            let mut back = 0usize;
            let mut k = 0;
            while k < d {
                assert!(v[k] < e, "coordinate outside the edge length");
                back += v[k] * ipow(e, k);
                k += 1;
            }
            assert!(back == i, "coordinates do not recompose to the index (not a bijection)");
            std::mem::forget(v);
            d += 1;
        }
        e += 1;
    }
    kani::cover!(true, "reached end");
}

/// Neighbourhood of a valid centre for an arbitrary radius (all f32 bit patterns).
pub fn check_neighbors(n: usize, d: usize, i: usize) {
    let r: f32 = kani::any();
    let res = Topology::find_neighbors(&n, &d, &i, &r);
    if r < 0.0 {
        assert!(res.is_none(), "negative radius must give no neighbourhood");
        return;
    }
    if r.is_nan() {
        // no meaningful neighbourhood: absent or empty
        if let Some(v) = res {
            assert!(v.values.len() == 0, "NaN radius produced neighbours");
            std::mem::forget(v);
        }
        return;
    }
    assert!(res.is_some(), "valid centre and radius must give a neighbourhood");
    let v = res.unwrap();
    let mut p = 0;
    let mut saw_centre = false;
    let mut j = 0;
    while j < n {
        if ref_member(n, d, i, j, r) {
            assert!(p < v.values.len(), "an index within the radius is missing");
            assert!(v.values[p] == j as i32, "neighbourhood differs from the brute-force set (order, repeats or membership)");
            if j == i {
                saw_centre = true;
            }
            p += 1;
        }
        j += 1;
    }
    assert!(p == v.values.len(), "neighbourhood contains an index outside the radius or outside 0..ntotal");
    assert!(saw_centre, "neighbourhood does not contain the centre");
    std::mem::forget(v);
}

/// A centre that is not a valid index (index >= ntotal) has no neighbourhood.
#[kani::proof]
#[kani::unwind(12)]
#[kani::stub(f32::powf, crate::gen::libm_table::powf_table)]
pub fn c20_invalid_centre() {
    let mut n = 1;
    while n <= 4 {
        let i: usize = kani::any();
        kani::assume(i >= n && i <= n + 2);
        let r: f32 = kani::any();
        let res = Topology::find_neighbors(&n, &2, &i, &r);
        assert!(res.is_none(), "a centre outside 0..ntotal-1 must give no neighbourhood");
        n += 1;
    }
    kani::cover!(true, "reached end");
}

/// ntotal == 0 or ndim == 0: no neighbourhood, no crash.
#[kani::proof]
#[kani::unwind(12)]
#[kani::stub(f32::powf, crate::gen::libm_table::powf_table)]
pub fn c20_degenerate_sizes() {
    let r: f32 = kani::any();
    let i: usize = kani::any();
    kani::assume(i < 4);
    assert!(Topology::find_neighbors(&0, &1, &i, &r).is_none(), "ntotal = 0 must give no neighbourhood");
    assert!(Topology::find_neighbors(&3, &0, &i, &r).is_none(), "ndim = 0 must give no neighbourhood");
    kani::cover!(true, "reached end");
}
