//! C20 — neighbourhood geometry. `f32::powf` is replaced by a lookup table generated on every run
//! from the real libm for exactly the arguments this bounded domain produces (gen/libm_table.rs).
use crate::topo_ref::*;
use pushr::push::topology::Topology;

/// decompose_index is a bijection on the hypercube: digits < edge, sum digit_k * edge^k == index.
#[kani::proof]
#[kani::unwind(6)]
pub fn c20_decompose_bijection() {
    let mut e = 1;
    while e <= 4 {
        let mut d = 1;
        while d <= 3 {
            let total = ipow(e, d);
            let i: usize = kani::any();
            kani::assume(i < total);
            let r = Topology::decompose_index(&i, &e, &d);
            assert!(r.is_some(), "decompose_index must succeed inside the hypercube");
            let v = r.unwrap();
            assert!(v.len() == d, "one coordinate per dimension");
            let mut back = 0usize;
            let mut k = 0;
            while k < d {
                assert!(v[k] < e, "coordinate outside the edge length");
                back += v[k] * ipow(e, k);
                k += 1;
            }
            assert!(back == i, "coordinates do not recompose to the index (not a bijection)");
            std::mem::forget(v);
            d += 1;
        }
        e += 1;
    }
    kani::cover!(true, "reached end");
}

/// Neighbourhood of a valid centre for an arbitrary radius (all f32 bit patterns).
pub fn check_neighbors(n: usize, d: usize, i: usize) {
    let r: f32 = kani::any();
    let res = Topology::find_neighbors(&n, &d, &i, &r);
    if r < 0.0 {
        assert!(res.is_none(), "negative radius must give no neighbourhood");
        return;
    }
    if r.is_nan() {
        // no meaningful neighbourhood: absent or empty
        if let Some(v) = res {
            assert!(v.values.len() == 0, "NaN radius produced neighbours");
            std::mem::forget(v);
        }
        return;
    }
    assert!(res.is_some(), "valid centre and radius must give a neighbourhood");
    let v = res.unwrap();
    let mut p = 0;
    let mut saw_centre = false;
    let mut j = 0;
    while j < n {
        if ref_member(n, d, i, j, r) {
            assert!(p < v.values.len(), "an index within the radius is missing");
            assert!(v.values[p] == j as i32, "neighbourhood differs from the brute-force set (order, repeats or membership)");
            if j == i {
                saw_centre = true;
            }
            p += 1;
        }
        j += 1;
    }
    assert!(p == v.values.len(), "neighbourhood contains an index outside the radius or outside 0..ntotal");
    assert!(saw_centre, "neighbourhood does not contain the centre");
    std::mem::forget(v);
}

/// A centre that is not a valid index (index >= ntotal) has no neighbourhood.
#[kani::proof]
#[kani::unwind(12)]
#[kani::stub(f32::powf, crate::gen::libm_table::powf_table)]
pub fn c20_invalid_centre() {
    let mut n = 1;
    while n <= 4 {
        let i: usize = kani::any();
        kani::assume(i >= n && i <= n + 2);
        let r: f32 = kani::any();
        let res = Topology::find_neighbors(&n, &2, &i, &r);
        assert!(res.is_none(), "a centre outside 0..ntotal-1 must give no neighbourhood");
        n += 1;
    }
    kani::cover!(true, "reached end");
}

/// ntotal == 0 or ndim == 0: no neighbourhood, no crash.
#[kani::proof]
#[kani::unwind(12)]
#[kani::stub(f32::powf, crate::gen::libm_table::powf_table)]
pub fn c20_degenerate_sizes() {
    let r: f32 = kani::any();
    let i: usize = kani::any();
    kani::assume(i < 4);
    assert!(Topology::find_neighbors(&0, &1, &i, &r).is_none(), "ntotal = 0 must give no neighbourhood");
    assert!(Topology::find_neighbors(&3, &0, &i, &r).is_none(), "ndim = 0 must give no neighbourhood");
    kani::cover!(true, "reached end");
}

// ---- LIST.NEIGHBOR*IDS through the registry -----------------------------------------------------------
use crate::instr::{run_state, Mode};
use crate::reg_harness;
use crate::state::*;

/// size and dimension operands concrete, centre index any i32, radius any f32; missing operands are
/// covered by the shapes with fewer INTEGERs / no FLOAT.
fn neighbor_ids(size: i32, dims: i32) {
    let mut ins = crate::gen::registry::fetch_LIST_NEIGHBORStarIDS();
    let sh = Shape { ni: 3, nf: 1, niv: 1, ivl: [1, 1, 1], ..SHAPE0 };
    let mut st = build(&sh);
    *st.int_stack.get_mut(0).unwrap() = size;
    *st.int_stack.get_mut(2).unwrap() = dims;
    run_state(&mut ins, st, &sh, Some(crate::spec::LIST_NEIGHBORStarIDS), Mode::Sem);
    std::mem::forget(ins);
}
macro_rules! nbi {
    ($name:ident, $size:expr, $dims:expr) => {
        reg_harness!($name, 10, {
            neighbor_ids($size, $dims);
            kani::cover!(true, "reached end");
        });
    };
}
nbi!(c20_instr_ids_size_neg, -3, 2);
nbi!(c20_instr_ids_size0, 0, 1);
nbi!(c20_instr_ids_size1_d1, 1, 1);
nbi!(c20_instr_ids_size1_d0, 1, 0);
nbi!(c20_instr_ids_size1_dneg, 1, -2);
nbi!(c20_instr_ids_size2_d1, 2, 1);
nbi!(c20_instr_ids_size2_d2, 2, 2);
nbi!(c20_instr_ids_size2_d7, 2, 7);
nbi!(c20_instr_ids_size3_d1, 3, 1);
nbi!(c20_instr_ids_size3_d2, 3, 2);
nbi!(c20_instr_ids_size3_d3, 3, 3);
nbi!(c20_instr_ids_size4_d1, 4, 1);
nbi!(c20_instr_ids_size4_d2, 4, 2);
nbi!(c20_instr_ids_size4_d3, 4, 3);

/// fewer than three INTEGERs or no FLOAT: nothing is pushed, at most operands are consumed
fn neighbor_ids_missing(ni: usize, nf: usize) {
    let mut ins = crate::gen::registry::fetch_LIST_NEIGHBORStarIDS();
    let sh = Shape { ni, nf, niv: 1, ivl: [1, 1, 1], nb: 1, ..SHAPE0 };
    let st = build(&sh);
    kani::assume(crate::instr::pre_top3_int_small(&st));
    run_state(&mut ins, st, &sh, Some(crate::spec::LIST_NEIGHBORStarIDS), Mode::Sem);
    std::mem::forget(ins);
}
reg_harness!(c20_instr_ids_missing_operands, 10, {
    neighbor_ids_missing(0, 1);
    neighbor_ids_missing(2, 1);
    neighbor_ids_missing(3, 0);
    kani::cover!(true, "reached end");
});
