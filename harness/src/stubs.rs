//! Environment / tool adapters applied with `#[kani::stub]`. None of them replaces pushr code
//! except `Instruction::new` (same semantics, works around a Kani 0.68 ICE) and, in C02 only,
//! `PushInterpreter::step` (nondeterministic stand-in, see c02_run.rs).
use std::alloc::Allocator;
use std::collections::HashMap;
use std::hash::BuildHasher;
use std::hash::Hash;

use pushr::push::instructions::{Instruction, InstructionCache};
use pushr::push::state::PushState;

/// std::hash::RandomState::new needs the getrandom syscall; fixed keys instead.
pub fn random_state_new() -> std::hash::RandomState {
    unsafe { std::mem::transmute::<(u64, u64), std::hash::RandomState>((0x0123_4567_89ab_cdef, 0x0fed_cba9_8765_4321)) }
}

/// Kani 0.68 ICEs on Box<fn item> -> Box<dyn FnMut>; wrap in a closure (semantically identical).
pub fn instruction_new<F>(mut execute: F) -> Instruction
where
    F: FnMut(&mut PushState, &InstructionCache) + 'static + Send,
{
    Instruction { execute: Box::new(move |s: &mut PushState, c: &InstructionCache| execute(s, c)) }
}

/// Association-list model of the instruction registry's only use (insert, then look one name up):
/// the `TARGET_ORD`-th insert into a `HashMap<String, Instruction>` is kept (as a raw Box pointer) in
/// `SLOT` together with a fingerprint of its key. Every other instantiation of `HashMap::insert` runs
/// the real `entry` API.
///
/// IMPORTANT (Kani 0.68): a `static mut` whose initial bytes equal those of some constant (all zeroes,
/// usize::MAX, ...) is merged with that constant's allocation - writing to it silently changes e.g. the
/// capacity field of every `Vec::new()`. Every mutable static of this crate therefore starts from a
/// unique magic value and is used relative to it; `c00_sanity` checks that `Vec::new()` is unaffected.
pub const MAGIC: usize = 0x5EED_0000_0000_0000;
pub static mut TARGET_ORD: usize = MAGIC + 0x0101;
pub static mut INSERTS: usize = MAGIC + 0x0201;
pub static mut SLOT: usize = MAGIC + 0x0301;
pub static mut SLOT_KEY_LEN: usize = MAGIC + 0x0401;
pub static mut SLOT_KEY_FIRST: usize = MAGIC + 0x0501;
pub static mut SLOT_KEY_LAST: usize = MAGIC + 0x0601;

pub fn hashmap_insert<K, V, S, A>(map: &mut HashMap<K, V, S, A>, k: K, v: V) -> Option<V>
where
    K: Eq + Hash,
    S: BuildHasher,
    A: Allocator + Clone,
{
    if std::mem::size_of::<K>() == std::mem::size_of::<String>()
        && std::mem::size_of::<V>() == std::mem::size_of::<Instruction>()
        && std::mem::align_of::<V>() == std::mem::align_of::<Instruction>()
    {
        unsafe {
            let ks: &String = &*(&k as *const K as *const String);
            if INSERTS == TARGET_ORD {
                let b = ks.as_bytes();
                SLOT_KEY_LEN = MAGIC + b.len();
                SLOT_KEY_FIRST = MAGIC + b[0] as usize;
                SLOT_KEY_LAST = MAGIC + b[b.len() - 1] as usize;
                let vi: Instruction = std::mem::transmute_copy::<V, Instruction>(&v);
                std::mem::forget(v);
                SLOT = Box::into_raw(Box::new(vi)) as usize;
            } else {
                std::mem::forget(v);
            }
            INSERTS += 1;
        }
        std::mem::forget(k);
        None
    } else {
        use std::collections::hash_map::Entry;
        match map.entry(k) {
            Entry::Occupied(mut e) => Some(e.insert(v)),
            Entry::Vacant(e) => {
                e.insert(v);
                None
            }
        }
    }
}

/// Fetch instruction number `ord` of a `load_*_instructions` function and check the captured key.
pub fn fetch(load: fn(&mut HashMap<String, Instruction>), ord: usize, name: &'static str) -> Instruction {
    unsafe {
        TARGET_ORD = MAGIC + 0x0201 + ord;
        INSERTS = MAGIC + 0x0201;
        SLOT = MAGIC + 0x0301;
    }
    let mut map: HashMap<String, Instruction> = HashMap::new();
    load(&mut map);
    let b = name.as_bytes();
    unsafe {
        if SLOT == MAGIC + 0x0301 {
            // Native replay (`cargo kani playback`): Kani stubs are not applied, the real HashMap::insert
            // ran and the map really holds the registry - look the name up in it. Under Kani this branch
            // is dead: the insert stub has set SLOT (or the assertion below fails).
            if let Some(ins) = map.remove(name) {
                std::mem::forget(map);
                return ins;
            }
        }
        assert!(SLOT != MAGIC + 0x0301, "instruction not captured (registry ordinal out of range)");
        std::mem::forget(map);
        assert!(
            SLOT_KEY_LEN == MAGIC + b.len() && SLOT_KEY_FIRST == MAGIC + b[0] as usize && SLOT_KEY_LAST == MAGIC + b[b.len() - 1] as usize,
            "registry ordinal/name mismatch (extract.py vs runtime)"
        );
        *Box::from_raw(SLOT as *mut Instruction)
    }
}

/// Injective stand-in for `<i32 as ToString>::to_string` (core::fmt is out of reach for CBMC here):
/// 8 ASCII bytes, one per nibble. Only equality of the results is ever used by the code under test.
pub fn i32_to_string<T: ?Sized>(x: &T) -> String {
    assert!(std::mem::size_of_val(x) == 4, "to_string stub used for a type other than i32");
    let u = unsafe { *(x as *const T as *const i32) } as u32;
    let mut v: Vec<u8> = Vec::with_capacity(8);
    v.push(b'a' + ((u >> 28) & 15) as u8);
    v.push(b'a' + ((u >> 24) & 15) as u8);
    v.push(b'a' + ((u >> 20) & 15) as u8);
    v.push(b'a' + ((u >> 16) & 15) as u8);
    v.push(b'a' + ((u >> 12) & 15) as u8);
    v.push(b'a' + ((u >> 8) & 15) as u8);
    v.push(b'a' + ((u >> 4) & 15) as u8);
    v.push(b'a' + (u & 15) as u8);
    unsafe { String::from_utf8_unchecked(v) }
}

/// libm functions Kani has no model for (tanf): arbitrary result. Values of transcendental
/// functions are outside every claim.
pub fn f32_any(_x: f32) -> f32 {
    kani::any()
}

/// Harness with the three registry stubs applied (dispatch by name through the real load_* code).
#[macro_export]
macro_rules! reg_harness {
    ($name:ident, $unwind:expr, $body:block) => {
        #[kani::proof]
        #[kani::unwind($unwind)]
        #[kani::stub(std::hash::RandomState::new, crate::stubs::random_state_new)]
        #[kani::stub(pushr::push::instructions::Instruction::new, crate::stubs::instruction_new)]
        #[kani::stub(std::collections::HashMap::insert, crate::stubs::hashmap_insert)]
        #[kani::stub(f32::powf, crate::gen::libm_table::powf_table)]
        pub fn $name() $body
    };
}
