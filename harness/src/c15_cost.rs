//! C15 - hand-written part: the size handed to the random code generator by CODE.RAND is bounded by the
//! configured maximum, whatever the INTEGER operand (the per-instruction cost harnesses are generated).

#[kani::proof]
#[kani::unwind(10)]
#[kani::stub(std::hash::RandomState::new, crate::stubs::random_state_new)]
#[kani::stub(pushr::push::instructions::Instruction::new, crate::stubs::instruction_new)]
#[kani::stub(std::collections::HashMap::insert, crate::stubs::hashmap_insert)]
#[kani::stub(pushr::push::random::CodeGenerator::random_code, crate::c12_codegen::random_code_recorder)]
pub fn c15_code_rand_size_bounded_by_configuration() {
    crate::c12_codegen::code_rand_bound_body();
}
