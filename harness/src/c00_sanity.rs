//! Tool sanity obligations run with every property (they belong to no property): the mutable statics
//! of the harness crate must not alias constants of the code under test (Kani 0.68 merges a `static mut`
//! with constants of identical initial bytes; see stubs.rs).

#[kani::proof]
#[kani::unwind(10)]
#[kani::stub(std::hash::RandomState::new, crate::stubs::random_state_new)]
#[kani::stub(pushr::push::instructions::Instruction::new, crate::stubs::instruction_new)]
#[kani::stub(std::collections::HashMap::insert, crate::stubs::hashmap_insert)]
pub fn c00_statics_do_not_alias_constants() {
    let ins = crate::gen::registry::fetch_INPUT_AVAILABLE();
    nondet::set_max_draws(3);
    nondet::count_draw();
    let v: Vec<i32> = Vec::new();
    let w: Vec<String> = Vec::new();
    let s = String::new();
    assert!(v.capacity() == 0 && w.capacity() == 0 && s.capacity() == 0, "a harness static aliases the constant behind Vec::new()");
    let z: usize = 0;
    let m: usize = usize::MAX;
    assert!(z == 0 && m == usize::MAX);
    assert!(nondet::draws() == 1);
    // pushr's own process-wide counter (an atomic static initialised to 1) must not alias either
    let n1 = pushr::push::graph::Node::new(0);
    let n2 = pushr::push::graph::Node::new(0);
    let one: &usize = &1;
    let v2: Vec<i32> = Vec::new();
    assert!(*one == 1 && v2.capacity() == 0 && n2.get_id() == n1.get_id() + 1, "the node counter aliases a constant");
    std::mem::forget(ins);
    kani::cover!(true, "reached end");
}
