//! Kani harnesses for johker/pushr. Everything is `cfg(kani)`; the crate is only ever built by
//! `cargo kani` / `cargo kani playback`. `gen/` is regenerated from /repo's sources on every run
//! by tools/gen.py (never committed).
#![cfg_attr(kani, feature(allocator_api))]
#![allow(dead_code, unused_imports, unused_variables, unused_mut, non_snake_case, unused_features)]

#[cfg(kani)]
pub mod gen;
#[cfg(kani)]
pub mod stubs;
#[cfg(kani)]
pub mod state;
#[cfg(kani)]
pub mod spec;
#[cfg(kani)]
pub mod instr;
#[cfg(kani)]
pub mod c14_determinism;
#[cfg(kani)]
pub mod c15_cost;
#[cfg(kani)]
pub mod c16_stack;
#[cfg(kani)]
pub mod c17_buffer;
#[cfg(kani)]
pub mod c00_sanity;
#[cfg(kani)]
pub mod c02_run;
#[cfg(kani)]
pub mod c12_codegen;
#[cfg(kani)]
pub mod c13_random;
#[cfg(kani)]
pub mod topo_ref;
#[cfg(kani)]
pub mod c20_topology;
