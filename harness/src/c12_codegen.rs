//! C12 — random code has the requested size and is built from the given instructions.
//! Every draw is symbolic (shims/rand). Sizes are enumerated concretely; trees are inspected by
//! reference only (moving an Item is fine for CBMC, cloning or dropping one is not).
use crate::state::*;
use pushr::push::instructions::InstructionCache;
use pushr::push::item::{Item, PushType};
use pushr::push::random::CodeGenerator;

/// decompose(v, n): positive parts summing to n, for every draw sequence.
fn decompose(n: usize) {
    let mut v: Vec<usize> = Vec::with_capacity(n + 1);
    CodeGenerator::decompose(&mut v, n);
    assert!(v.len() >= 1 && v.len() <= n, "decomposition has an impossible number of parts");
    let mut sum = 0;
    let mut i = 0;
    while i < v.len() {
        assert!(v[i] >= 1, "decomposition contains a non-positive part");
        sum += v[i];
        i += 1;
    }
    assert!(sum == n, "decomposition does not sum to the request");
    std::mem::forget(v);
}
macro_rules! dec {
    ($name:ident, $n:expr) => {
        #[kani::proof]
        #[kani::unwind(12)]
        pub fn $name() {
            decompose($n);
            kani::cover!(true, "reached end");
        }
    };
}
dec!(c12_decompose_1, 1);
dec!(c12_decompose_2, 2);
dec!(c12_decompose_3, 3);
dec!(c12_decompose_4, 4);
dec!(c12_decompose_5, 5);
dec!(c12_decompose_6, 6);

// The ItemType::{BoolVector, FloatVector, IntVector} arms of random_code_with_size are never selected by
// the Standard distribution, but CBMC's symbolic execution still walks them (with symbolic allocation
// sizes, which exhausts memory). They are replaced by stubs that FAIL when reached, so "unreachable"
// is itself an obligation the solver discharges rather than an assumption.
pub fn dead_bool_vector(_size: i32, _sparsity: f32) -> Option<pushr::push::vector::BoolVector> {
    assert!(false, "random_code_with_size generated a BOOLVECTOR leaf (undocumented leaf kind)");
    None
}
pub fn dead_float_vector(_size: i32, _mean: f32, _sd: f32) -> Option<pushr::push::vector::FloatVector> {
    assert!(false, "random_code_with_size generated a FLOATVECTOR leaf (undocumented leaf kind)");
    None
}
pub fn dead_int_vector(_size: i32, _min: i32, _max: i32) -> Option<pushr::push::vector::IntVector> {
    assert!(false, "random_code_with_size generated an INTVECTOR leaf (undocumented leaf kind)");
    None
}

fn cache(n: usize) -> InstructionCache {
    let mut l: Vec<String> = Vec::with_capacity(2);
    if n >= 1 {
        l.push(String::from("INTEGER.+"));
    }
    InstructionCache::new(l)
}

/// Point count and leaf check by an explicitly bounded, non-recursive walk (depth <= 3 lists, at most
/// `n` children per list): the generated item's variant is symbolic, and the recursive Item::size
/// would make CBMC explore the List arm on every leaf. Returns (points, all leaves ok, within bounds).
fn walk(it: &Item, n: usize, ninstr: usize) -> (usize, bool, bool) {
    let mut pts = 1;
    let mut ok = true;
    let mut bounded = true;
    if let Item::List { items: l1 } = it {
        if l1.size() > n {
            return (0, false, false);
        }
        let mut i = 0;
        while i < l1.size() && i < n {
            let c1 = l1.get(i).unwrap();
            pts += 1;
            if let Item::List { items: l2 } = c1 {
                if l2.size() > n {
                    return (0, false, false);
                }
                let mut j = 0;
                while j < l2.size() && j < n {
                    let c2 = l2.get(j).unwrap();
                    pts += 1;
                    if let Item::List { items: l3 } = c2 {
                        if l3.size() > n {
                            return (0, false, false);
                        }
                        let mut k = 0;
                        while k < l3.size() && k < n {
                            let c3 = l3.get(k).unwrap();
                            pts += 1;
                            if let Item::List { items: _ } = c3 {
                                bounded = false; // deeper than 3 lists: impossible for <= 4 points
                            } else {
                                ok = ok && leaf_ok(c3, ninstr);
                            }
                            k += 1;
                        }
                    } else {
                        ok = ok && leaf_ok(c2, ninstr);
                    }
                    j += 1;
                }
            } else {
                ok = ok && leaf_ok(c1, ninstr);
            }
            i += 1;
        }
    } else {
        ok = leaf_ok(it, ninstr);
    }
    (pts, ok, bounded)
}

/// every leaf is of a documented kind; instruction leaves come from the cache (NOOP when it is empty)
fn leaf_ok(it: &Item, ninstr: usize) -> bool {
    match it {
        Item::Literal { push_type } => match push_type {
            PushType::Bool { val: _ } => true,
            PushType::Int { val: _ } => true,
            PushType::Float { val } => *val >= 0.0 && *val < 1.0,
            _ => false,
        },
        Item::Identifier { name } => name.len() > 0,
        Item::InstructionMeta { name } => {
            let b = name.as_bytes();
            if ninstr == 0 {
                b.len() == 4 && b[0] == b'N' && b[3] == b'P'
            } else {
                b.len() == 9 && b[0] == b'I' && b[8] == b'+'
            }
        }
        Item::List { items: _ } => false,
    }
}

fn with_size(n: usize, ninstr: usize) {
    let st = build(&SHAPE0);
    let c = cache(ninstr);
    let it = CodeGenerator::random_code_with_size(&st, &c, n);
    let (p, ok, bounded) = walk(&it, n, ninstr);
    assert!(bounded, "generated tree is deeper or wider than any tree with the requested number of points");
    assert!(p == n, "generated code does not have exactly the requested number of points");
    assert!(ok, "a leaf is not of a documented kind / not from the instruction list");
    std::mem::forget(it);
    std::mem::forget(st);
    std::mem::forget(c);
}
macro_rules! ws {
    ($name:ident, $n:expr, $k:expr) => {
        #[kani::proof]
        #[kani::unwind(8)]
        #[kani::stub(std::hash::RandomState::new, crate::stubs::random_state_new)]
        #[kani::stub(pushr::push::random::CodeGenerator::random_bool_vector, dead_bool_vector)]
        #[kani::stub(pushr::push::random::CodeGenerator::random_float_vector, dead_float_vector)]
        #[kani::stub(pushr::push::random::CodeGenerator::random_int_vector, dead_int_vector)]
        pub fn $name() {
            with_size($n, $k);
            kani::cover!(true, "reached end");
        }
    };
}
ws!(c12_with_size_1_noinstr, 1, 0);
ws!(c12_with_size_1_instr, 1, 1);
ws!(c12_with_size_2_instr, 2, 1);
ws!(c12_with_size_2_noinstr, 2, 0);

/// random_code(max): nothing for max <= 1 (never a crash); between 1 and max-1 points for max >= 2.
fn upto(max: usize, ninstr: usize) {
    let st = build(&SHAPE0);
    let c = cache(ninstr);
    let r = CodeGenerator::random_code(&st, &c, max);
    match r {
        None => assert!(max < 2, "no code although the bound is >= 2"),
        Some(it) => {
            assert!(max >= 2, "code generated for a bound < 2");
            let (p, ok, bounded) = walk(&it, max, ninstr);
            assert!(bounded, "generated tree is deeper or wider than any tree within the bound");
            assert!(p >= 1 && p <= max - 1, "generated code is not within 1..bound-1 points");
            assert!(ok, "a leaf is not of a documented kind / not from the instruction list");
            std::mem::forget(it);
        }
    }
    std::mem::forget(st);
    std::mem::forget(c);
}
macro_rules! ut {
    ($name:ident, $n:expr, $k:expr) => {
        #[kani::proof]
        #[kani::unwind(8)]
        #[kani::stub(std::hash::RandomState::new, crate::stubs::random_state_new)]
        #[kani::stub(pushr::push::random::CodeGenerator::random_bool_vector, dead_bool_vector)]
        #[kani::stub(pushr::push::random::CodeGenerator::random_float_vector, dead_float_vector)]
        #[kani::stub(pushr::push::random::CodeGenerator::random_int_vector, dead_int_vector)]
        pub fn $name() {
            upto($n, $k);
            kani::cover!(true, "reached end");
        }
    };
}
ut!(c12_upto_0, 0, 1);
ut!(c12_upto_1, 1, 1);
ut!(c12_upto_2, 2, 1);
ut!(c12_upto_2_noinstr, 2, 0);

// ---- CODE.RAND through the registry ---------------------------------------------------------------
use crate::gen::registry as reg;

/// CODE.RAND hands `min(|n|, |max-points-in-random-expressions|)` to the generator: the generator is
/// replaced by a recorder, so the real bound computation of CODE.RAND is checked for EVERY INTEGER
/// operand and EVERY configured maximum (incl. i32::MIN and negative values).
// unique initial patterns: see the note on `static mut` in stubs.rs
const REC_BASE: usize = 0x5EED_0000_0004_0101;
static mut REC_MAX: usize = 0x5EED_0000_0004_0201;
static mut REC_CALLS: usize = REC_BASE;
pub fn random_code_recorder(_st: &pushr::push::state::PushState, _c: &InstructionCache, max_points: usize) -> Option<Item> {
    unsafe {
        REC_MAX = max_points;
        REC_CALLS += 1;
    }
    None
}

#[kani::proof]
#[kani::unwind(10)]
#[kani::stub(std::hash::RandomState::new, crate::stubs::random_state_new)]
#[kani::stub(pushr::push::instructions::Instruction::new, crate::stubs::instruction_new)]
#[kani::stub(std::collections::HashMap::insert, crate::stubs::hashmap_insert)]
#[kani::stub(pushr::push::random::CodeGenerator::random_code, random_code_recorder)]
pub fn c12_code_rand_bound_any_operand() {
    code_rand_bound_body();
}

pub fn code_rand_bound_body() {
    let mut ins = reg::fetch_CODE_RAND();
    let mut st = build(&Shape { ni: 2, ..SHAPE0 });
    let maxp: i32 = kani::any();
    st.configuration.max_points_in_random_expressions = maxp;
    let n = *st.int_stack.get(0).unwrap();
    let c = cache(1);
    (ins.execute)(&mut st, &c);
    assert!(st.int_stack.size() == 1, "CODE.RAND must consume exactly its INTEGER operand");
    let (calls, m) = unsafe { (REC_CALLS - REC_BASE, REC_MAX) };
    assert!(calls == 1, "CODE.RAND must ask the generator exactly once");
    let an = (n as i64).abs() as usize;
    let am = (maxp as i64).abs() as usize;
    assert!(m <= an, "CODE.RAND allows more points than |n|");
    assert!(m <= am, "CODE.RAND allows more points than max-points-in-random-expressions");
    assert!(m == an || m == am, "CODE.RAND bound is not min(|n|, |max points|)");
    kani::cover!(n < -30, "large negative operand reachable");
    std::mem::forget(st);
    std::mem::forget(c);
    std::mem::forget(ins);
}

/// CODE.RAND end to end (real generator) for operands whose bound is <= 2.
fn code_rand(n: i32, maxp: i32) {
    let mut ins = reg::fetch_CODE_RAND();
    let mut st = build(&Shape { ni: 1, ..SHAPE0 });
    st.configuration.max_points_in_random_expressions = maxp;
    *st.int_stack.get_mut(0).unwrap() = n;
    let c = cache(1);
    (ins.execute)(&mut st, &c);
    assert!(st.int_stack.size() == 0, "CODE.RAND must consume its INTEGER operand");
    assert!(st.code_stack.size() <= 1, "CODE.RAND pushed more than one item");
    if let Some(it) = st.code_stack.get(0) {
        let (p, _ok, bounded) = walk(it, 4, 1);
        assert!(bounded, "CODE.RAND produced a tree wider or deeper than the bound allows");
        let p = p as i64;
        assert!(p >= 1, "empty program");
        assert!(p <= (n as i64).abs(), "CODE.RAND produced more points than |n|");
        assert!(p <= (maxp as i64).abs(), "CODE.RAND produced more points than max-points-in-random-expressions");
    }
    std::mem::forget(st);
    std::mem::forget(c);
    std::mem::forget(ins);
}
macro_rules! cr {
    ($name:ident, $n:expr, $maxp:expr) => {
        #[kani::proof]
        #[kani::unwind(10)]
        #[kani::stub(std::hash::RandomState::new, crate::stubs::random_state_new)]
        #[kani::stub(pushr::push::instructions::Instruction::new, crate::stubs::instruction_new)]
        #[kani::stub(std::collections::HashMap::insert, crate::stubs::hashmap_insert)]
        #[kani::stub(pushr::push::random::CodeGenerator::random_bool_vector, dead_bool_vector)]
        #[kani::stub(pushr::push::random::CodeGenerator::random_float_vector, dead_float_vector)]
        #[kani::stub(pushr::push::random::CodeGenerator::random_int_vector, dead_int_vector)]
        pub fn $name() {
            code_rand($n, $maxp);
            kani::cover!(true, "reached end");
        }
    };
}
cr!(c12_code_rand_n0, 0, 25);
cr!(c12_code_rand_n1, 1, 25);
cr!(c12_code_rand_n2, 2, 25);
cr!(c12_code_rand_nneg2, -2, 25);
cr!(c12_code_rand_nmin_max2, i32::MIN, 2);
cr!(c12_code_rand_n100_maxneg2, 100, -2);
