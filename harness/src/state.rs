//! Bounded symbolic PushState: concrete shape (all depths and vector lengths concrete, enumerated by
//! the generated harnesses), symbolic contents. Plus a plain-array snapshot of every observable field.
use pushr::push::buffer::{BufferType, PushBuffer};
use pushr::push::configuration::PushConfiguration;
use pushr::push::graph::Graph;
use pushr::push::index::Index;
use pushr::push::instructions::{Instruction, InstructionCache};
use pushr::push::io::PushMessage;
use pushr::push::item::{Item, PushType};
use pushr::push::stack::PushStack;
use pushr::push::state::PushState;
use pushr::push::vector::{BoolVector, FloatVector, IntVector};
use std::collections::HashMap;

/// Maximum depths representable in a snapshot (pre-state depth + growth).
pub const NS: usize = 8; // scalar stacks
pub const NV: usize = 4; // vector stacks
pub const NL: usize = 6; // vector length
pub const NC: usize = 4; // code / exec
pub const NX: usize = 3; // index
pub const NQ: usize = 3; // io queues

#[derive(Clone, Copy)]
pub struct Shape {
    pub ni: usize,
    pub nf: usize,
    pub nb: usize,
    pub nn: usize,
    pub nc: usize,
    pub ne: usize,
    pub nx: usize,
    /// vector stack depths and the (concrete) length of each vector, bottom first
    pub nbv: usize,
    pub bvl: [usize; 3],
    pub niv: usize,
    pub ivl: [usize; 3],
    pub nfv: usize,
    pub fvl: [usize; 3],
    /// input queue: number of messages, body/header length of each
    pub nin: usize,
    pub inl: [usize; 2],
    pub nout: usize,
}

pub const SHAPE0: Shape = Shape {
    ni: 0, nf: 0, nb: 0, nn: 0, nc: 0, ne: 0, nx: 0,
    nbv: 0, bvl: [0; 3], niv: 0, ivl: [0; 3], nfv: 0, fvl: [0; 3],
    nin: 0, inl: [0; 2], nout: 0,
};

fn vec_i32(n: usize, cap: usize) -> Vec<i32> {
    let mut v = Vec::with_capacity(cap);
    let mut i = 0;
    while i < n {
        v.push(kani::any());
        i += 1;
    }
    v
}
fn vec_f32(n: usize, cap: usize) -> Vec<f32> {
    let mut v = Vec::with_capacity(cap);
    let mut i = 0;
    while i < n {
        v.push(kani::any());
        i += 1;
    }
    v
}
fn vec_bool(n: usize, cap: usize) -> Vec<bool> {
    let mut v = Vec::with_capacity(cap);
    let mut i = 0;
    while i < n {
        v.push(kani::any());
        i += 1;
    }
    v
}

pub const NAMES: [&str; 4] = ["n0", "n1", "n2", "n3"];

/// An integer atom whose payload is symbolic. Constructed concretely, payload written through
/// `&mut` afterwards so that CBMC keeps the enum discriminant constant-folded.
pub fn int_atom() -> Item {
    let mut it = Item::int(0);
    if let Item::Literal { push_type: PushType::Int { val } } = &mut it {
        *val = kani::any();
    }
    it
}

pub fn build(sh: &Shape) -> PushState {
    let mut names: Vec<String> = Vec::with_capacity(NS);
    let mut i = 0;
    while i < sh.nn {
        names.push(String::from(NAMES[i]));
        i += 1;
    }
    let mut code: Vec<Item> = Vec::with_capacity(NC + 2);
    i = 0;
    while i < sh.nc {
        code.push(int_atom());
        i += 1;
    }
    let mut exec: Vec<Item> = Vec::with_capacity(NC + 2);
    i = 0;
    while i < sh.ne {
        exec.push(int_atom());
        i += 1;
    }
    let mut index: Vec<Index> = Vec::with_capacity(NX + 1);
    i = 0;
    while i < sh.nx {
        let c: usize = kani::any();
        let d: usize = kani::any();
        kani::assume(c <= 4 && d <= 4);
        index.push(Index { current: c, destination: d });
        i += 1;
    }
    let mut bvs: Vec<BoolVector> = Vec::with_capacity(NV + 1);
    i = 0;
    while i < sh.nbv {
        bvs.push(BoolVector::new(vec_bool(sh.bvl[i], NL + 1)));
        i += 1;
    }
    let mut ivs: Vec<IntVector> = Vec::with_capacity(NV + 1);
    i = 0;
    while i < sh.niv {
        ivs.push(IntVector::new(vec_i32(sh.ivl[i], NL + 1)));
        i += 1;
    }
    let mut fvs: Vec<FloatVector> = Vec::with_capacity(NV + 1);
    i = 0;
    while i < sh.nfv {
        fvs.push(FloatVector::new(vec_f32(sh.fvl[i], NL + 1)));
        i += 1;
    }
    let mut input: PushBuffer<PushMessage> = PushBuffer::new(BufferType::Queue, 2);
    i = 0;
    while i < sh.nin {
        input.push(PushMessage::new(
            IntVector::new(vec_i32(sh.inl[i], NL + 1)),
            BoolVector::new(vec_bool(sh.inl[i], NL + 1)),
        ));
        i += 1;
    }
    let mut output: PushBuffer<PushMessage> = PushBuffer::new(BufferType::Queue, 2);
    i = 0;
    while i < sh.nout {
        output.push(PushMessage::new(IntVector::new(vec_i32(1, 2)), BoolVector::new(vec_bool(1, 2))));
        i += 1;
    }
    let mut cfg = PushConfiguration::new();
    cfg.min_random_integer = kani::any();
    cfg.max_random_integer = kani::any();
    cfg.min_random_float = kani::any();
    cfg.max_random_float = kani::any();
    PushState {
        bool_stack: PushStack::from_vec(vec_bool(sh.nb, NS + 1)),
        code_stack: PushStack::from_vec(code),
        exec_stack: PushStack::from_vec(exec),
        float_stack: PushStack::from_vec(vec_f32(sh.nf, NS + 1)),
        index_stack: PushStack::from_vec(index),
        int_stack: PushStack::from_vec(vec_i32(sh.ni, NS + 1)),
        name_stack: PushStack::from_vec(names),
        bool_vector_stack: PushStack::from_vec(bvs),
        float_vector_stack: PushStack::from_vec(fvs),
        int_vector_stack: PushStack::from_vec(ivs),
        input_stack: input,
        output_stack: output,
        graph_stack: PushBuffer::new(BufferType::Stack, 1),
        name_bindings: HashMap::new(),
        configuration: cfg,
        quote_name: kani::any(),
        send_name: kani::any(),
    }
}

/// A second state with exactly the same (symbolic) contents as `st`, rebuilt value by value through
/// references (no Item is cloned). Only valid for states produced by `build(sh)`.
pub fn twin(st: &PushState, sh: &Shape) -> PushState {
    let mut ints = Vec::with_capacity(NS + 1);
    let mut i = 0;
    while i < sh.ni {
        ints.push(*st.int_stack.get(sh.ni - 1 - i).unwrap());
        i += 1;
    }
    let mut flts = Vec::with_capacity(NS + 1);
    i = 0;
    while i < sh.nf {
        flts.push(*st.float_stack.get(sh.nf - 1 - i).unwrap());
        i += 1;
    }
    let mut bools = Vec::with_capacity(NS + 1);
    i = 0;
    while i < sh.nb {
        bools.push(*st.bool_stack.get(sh.nb - 1 - i).unwrap());
        i += 1;
    }
    let mut names: Vec<String> = Vec::with_capacity(NS);
    i = 0;
    while i < sh.nn {
        names.push(String::from(NAMES[i]));
        i += 1;
    }
    let mut code: Vec<Item> = Vec::with_capacity(NC + 2);
    i = 0;
    while i < sh.nc {
        let mut it = Item::int(0);
        if let (Item::Literal { push_type: PushType::Int { val } }, Some(Item::Literal { push_type: PushType::Int { val: src } })) =
            (&mut it, st.code_stack.get(sh.nc - 1 - i))
        {
            *val = *src;
        }
        code.push(it);
        i += 1;
    }
    let mut exec: Vec<Item> = Vec::with_capacity(NC + 2);
    i = 0;
    while i < sh.ne {
        let mut it = Item::int(0);
        if let (Item::Literal { push_type: PushType::Int { val } }, Some(Item::Literal { push_type: PushType::Int { val: src } })) =
            (&mut it, st.exec_stack.get(sh.ne - 1 - i))
        {
            *val = *src;
        }
        exec.push(it);
        i += 1;
    }
    let mut index: Vec<Index> = Vec::with_capacity(NX + 1);
    i = 0;
    while i < sh.nx {
        let x = st.index_stack.get(sh.nx - 1 - i).unwrap();
        index.push(Index { current: x.current, destination: x.destination });
        i += 1;
    }
    let mut bvs: Vec<BoolVector> = Vec::with_capacity(NV + 1);
    i = 0;
    while i < sh.nbv {
        let src = &st.bool_vector_stack.get(sh.nbv - 1 - i).unwrap().values;
        let mut v = Vec::with_capacity(NL + 1);
        let mut j = 0;
        while j < sh.bvl[i] {
            v.push(src[j]);
            j += 1;
        }
        bvs.push(BoolVector::new(v));
        i += 1;
    }
    let mut ivs: Vec<IntVector> = Vec::with_capacity(NV + 1);
    i = 0;
    while i < sh.niv {
        let src = &st.int_vector_stack.get(sh.niv - 1 - i).unwrap().values;
        let mut v = Vec::with_capacity(NL + 1);
        let mut j = 0;
        while j < sh.ivl[i] {
            v.push(src[j]);
            j += 1;
        }
        ivs.push(IntVector::new(v));
        i += 1;
    }
    let mut fvs: Vec<FloatVector> = Vec::with_capacity(NV + 1);
    i = 0;
    while i < sh.nfv {
        let src = &st.float_vector_stack.get(sh.nfv - 1 - i).unwrap().values;
        let mut v = Vec::with_capacity(NL + 1);
        let mut j = 0;
        while j < sh.fvl[i] {
            v.push(src[j]);
            j += 1;
        }
        fvs.push(FloatVector::new(v));
        i += 1;
    }
    let mut input: PushBuffer<PushMessage> = PushBuffer::new(BufferType::Queue, 2);
    i = 0;
    while i < sh.nin {
        let m = st.input_stack.get(i).unwrap();
        let mut h = Vec::with_capacity(NL + 1);
        let mut b = Vec::with_capacity(NL + 1);
        let mut j = 0;
        while j < sh.inl[i] {
            h.push(m.header.values[j]);
            b.push(m.body.values[j]);
            j += 1;
        }
        input.push(PushMessage::new(IntVector::new(h), BoolVector::new(b)));
        i += 1;
    }
    let mut output: PushBuffer<PushMessage> = PushBuffer::new(BufferType::Queue, 2);
    i = 0;
    while i < sh.nout {
        let m = st.output_stack.get(i).unwrap();
        let mut h = Vec::with_capacity(2);
        let mut b = Vec::with_capacity(2);
        h.push(m.header.values[0]);
        b.push(m.body.values[0]);
        output.push(PushMessage::new(IntVector::new(h), BoolVector::new(b)));
        i += 1;
    }
    let mut cfg = PushConfiguration::new();
    cfg.min_random_integer = st.configuration.min_random_integer;
    cfg.max_random_integer = st.configuration.max_random_integer;
    cfg.min_random_float = st.configuration.min_random_float;
    cfg.max_random_float = st.configuration.max_random_float;
    PushState {
        bool_stack: PushStack::from_vec(bools),
        code_stack: PushStack::from_vec(code),
        exec_stack: PushStack::from_vec(exec),
        float_stack: PushStack::from_vec(flts),
        index_stack: PushStack::from_vec(index),
        int_stack: PushStack::from_vec(ints),
        name_stack: PushStack::from_vec(names),
        bool_vector_stack: PushStack::from_vec(bvs),
        float_vector_stack: PushStack::from_vec(fvs),
        int_vector_stack: PushStack::from_vec(ivs),
        input_stack: input,
        output_stack: output,
        graph_stack: PushBuffer::new(BufferType::Stack, 1),
        name_bindings: HashMap::new(),
        configuration: cfg,
        quote_name: st.quote_name,
        send_name: st.send_name,
    }
}

// ------------------------------------------------------------------------------------------------
// Snapshot

/// Bounded sequence, a[0] = bottom. `len` may exceed N in a snapshot of a (wrongly) grown stack;
/// only the first min(len, N) slots are meaningful.
#[derive(Clone, Copy)]
pub struct Seq<T: Copy, const N: usize> {
    pub len: usize,
    pub a: [T; N],
}

impl<T: Copy, const N: usize> Seq<T, N> {
    pub fn new(z: T) -> Self {
        Seq { len: 0, a: [z; N] }
    }
    /// element at position `pos` counted from the top
    pub fn top(&self, pos: usize) -> T {
        self.a[self.len - 1 - pos]
    }
    pub fn push(&mut self, v: T) {
        if self.len < N {
            self.a[self.len] = v;
        }
        self.len += 1;
    }
    pub fn pop(&mut self) -> T {
        self.len -= 1;
        self.a[self.len]
    }
    pub fn remove_idx(&mut self, k: usize) -> T {
        let v = self.a[k];
        let mut i = k;
        while i + 1 < self.len {
            self.a[i] = self.a[i + 1];
            i += 1;
        }
        self.len -= 1;
        v
    }
    pub fn insert_idx(&mut self, k: usize, v: T) {
        let mut i = self.len;
        while i > k {
            if i < N {
                self.a[i] = self.a[i - 1];
            }
            i -= 1;
        }
        self.a[k] = v;
        self.len += 1;
    }
}

#[derive(Clone, Copy)]
pub struct NameVal {
    pub len: usize,
    pub b: [u8; 8],
}
pub const NAME0: NameVal = NameVal { len: 0, b: [0; 8] };

/// One-level summary of an Item: (kind, payload). kind: 1 int, 2 float(bits), 3 bool, 4 identifier
/// (payload = len*256+first byte), 5 instruction (same), 6 list (payload = length), 7 other literal.
#[derive(Clone, Copy, PartialEq)]
pub struct ItemSum {
    pub kind: u8,
    pub payload: i64,
}
pub const ITEM0: ItemSum = ItemSum { kind: 0, payload: 0 };

pub type VecSeq<T> = Seq<Seq<T, NL>, NV>;

/// snapshot of one queued message; queues are stored oldest first
#[derive(Clone, Copy)]
pub struct MsgSnap {
    pub h: Seq<i32, NL>,
    pub b: Seq<bool, NL>,
}
pub type QSeq = Seq<MsgSnap, NQ>;

#[derive(Clone, Copy)]
pub struct Snap {
    pub int: Seq<i32, NS>,
    pub flt: Seq<f32, NS>,
    pub boo: Seq<bool, NS>,
    pub name: Seq<NameVal, NS>,
    pub code: Seq<ItemSum, NC>,
    pub exec: Seq<ItemSum, NC>,
    pub index: Seq<(usize, usize), NX>,
    pub bvec: VecSeq<bool>,
    pub ivec: VecSeq<i32>,
    pub fvec: VecSeq<f32>,
    pub input_len: usize,
    pub output_len: usize,
    pub inq: QSeq,
    pub outq: QSeq,
    pub graph_len: usize,
    pub bindings: usize,
    pub quote: bool,
    pub send: bool,
}

pub fn name_val(s: &str) -> NameVal {
    let b = s.as_bytes();
    let mut out = NameVal { len: b.len(), b: [0; 8] };
    let mut i = 0;
    while i < 8 {
        if i < b.len() {
            out.b[i] = b[i];
        }
        i += 1;
    }
    out
}

fn str_sum(s: &str) -> i64 {
    let b = s.as_bytes();
    if b.len() == 0 {
        0
    } else {
        (b.len() as i64) * 256 + b[0] as i64
    }
}

pub fn item_sum(it: &Item) -> ItemSum {
    match it {
        Item::Literal { push_type } => match push_type {
            PushType::Int { val } => ItemSum { kind: 1, payload: *val as i64 },
            PushType::Float { val } => ItemSum { kind: 2, payload: val.to_bits() as i64 },
            PushType::Bool { val } => ItemSum { kind: 3, payload: *val as i64 },
            _ => ItemSum { kind: 7, payload: 0 },
        },
        Item::Identifier { name } => ItemSum { kind: 4, payload: str_sum(name) },
        Item::InstructionMeta { name } => ItemSum { kind: 5, payload: str_sum(name) },
        Item::List { items } => ItemSum { kind: 6, payload: items.size() as i64 },
    }
}

fn snap_queue(q: &PushBuffer<PushMessage>) -> QSeq {
    let z = MsgSnap { h: Seq::new(0), b: Seq::new(false) };
    let mut out: QSeq = Seq::new(z);
    out.len = q.size();
    let mut i = 0;
    while i < NQ {
        if i < out.len {
            // Queue kind: position 0 is the oldest message
            let m = q.get(i).unwrap();
            out.a[i].h.len = m.header.values.len();
            out.a[i].b.len = m.body.values.len();
            let mut j = 0;
            while j < NL {
                if j < m.header.values.len() {
                    out.a[i].h.a[j] = m.header.values[j];
                }
                if j < m.body.values.len() {
                    out.a[i].b.a[j] = m.body.values[j];
                }
                j += 1;
            }
        }
        i += 1;
    }
    out
}

pub fn snap(st: &PushState) -> Snap {
    let mut s = Snap {
        int: Seq::new(0),
        flt: Seq::new(0.0),
        boo: Seq::new(false),
        name: Seq::new(NAME0),
        code: Seq::new(ITEM0),
        exec: Seq::new(ITEM0),
        index: Seq::new((0, 0)),
        bvec: Seq::new(Seq::new(false)),
        ivec: Seq::new(Seq::new(0)),
        fvec: Seq::new(Seq::new(0.0)),
        input_len: st.input_stack.size(),
        output_len: st.output_stack.size(),
        inq: snap_queue(&st.input_stack),
        outq: snap_queue(&st.output_stack),
        graph_len: st.graph_stack.size(),
        bindings: st.name_bindings.len(),
        quote: st.quote_name,
        send: st.send_name,
    };
    // scalar stacks (position from the top -> bottom-first array)
    s.int.len = st.int_stack.size();
    s.flt.len = st.float_stack.size();
    s.boo.len = st.bool_stack.size();
    s.name.len = st.name_stack.size();
    let mut i = 0;
    while i < NS {
        if i < s.int.len {
            s.int.a[i] = *st.int_stack.get(s.int.len - 1 - i).unwrap();
        }
        if i < s.flt.len {
            s.flt.a[i] = *st.float_stack.get(s.flt.len - 1 - i).unwrap();
        }
        if i < s.boo.len {
            s.boo.a[i] = *st.bool_stack.get(s.boo.len - 1 - i).unwrap();
        }
        if i < s.name.len {
            s.name.a[i] = name_val(st.name_stack.get(s.name.len - 1 - i).unwrap());
        }
        i += 1;
    }
    s.code.len = st.code_stack.size();
    s.exec.len = st.exec_stack.size();
    i = 0;
    while i < NC {
        if i < s.code.len {
            s.code.a[i] = item_sum(st.code_stack.get(s.code.len - 1 - i).unwrap());
        }
        if i < s.exec.len {
            s.exec.a[i] = item_sum(st.exec_stack.get(s.exec.len - 1 - i).unwrap());
        }
        i += 1;
    }
    s.index.len = st.index_stack.size();
    i = 0;
    while i < NX {
        if i < s.index.len {
            let x = st.index_stack.get(s.index.len - 1 - i).unwrap();
            s.index.a[i] = (x.current, x.destination);
        }
        i += 1;
    }
    s.bvec.len = st.bool_vector_stack.size();
    s.ivec.len = st.int_vector_stack.size();
    s.fvec.len = st.float_vector_stack.size();
    i = 0;
    while i < NV {
        if i < s.bvec.len {
            let v = &st.bool_vector_stack.get(s.bvec.len - 1 - i).unwrap().values;
            s.bvec.a[i].len = v.len();
            let mut j = 0;
            while j < NL {
                if j < v.len() {
                    s.bvec.a[i].a[j] = v[j];
                }
                j += 1;
            }
        }
        if i < s.ivec.len {
            let v = &st.int_vector_stack.get(s.ivec.len - 1 - i).unwrap().values;
            s.ivec.a[i].len = v.len();
            let mut j = 0;
            while j < NL {
                if j < v.len() {
                    s.ivec.a[i].a[j] = v[j];
                }
                j += 1;
            }
        }
        if i < s.fvec.len {
            let v = &st.float_vector_stack.get(s.fvec.len - 1 - i).unwrap().values;
            s.fvec.a[i].len = v.len();
            let mut j = 0;
            while j < NL {
                if j < v.len() {
                    s.fvec.a[i].a[j] = v[j];
                }
                j += 1;
            }
        }
        i += 1;
    }
    s
}

// ------------------------------------------------------------------------------------------------
// Comparison (floats: bit-equal, or both NaN)

/// float results: equal as floats (so +0.0 == -0.0), or both NaN (payloads are not compared)
pub fn feq(a: f32, b: f32) -> bool {
    a == b || (a.is_nan() && b.is_nan())
}

pub fn eq_i32<const N: usize>(a: &Seq<i32, N>, b: &Seq<i32, N>) -> bool {
    if a.len != b.len {
        return false;
    }
    let mut i = 0;
    while i < N {
        if i < a.len && a.a[i] != b.a[i] {
            return false;
        }
        i += 1;
    }
    true
}
pub fn eq_bool<const N: usize>(a: &Seq<bool, N>, b: &Seq<bool, N>) -> bool {
    if a.len != b.len {
        return false;
    }
    let mut i = 0;
    while i < N {
        if i < a.len && a.a[i] != b.a[i] {
            return false;
        }
        i += 1;
    }
    true
}
pub fn eq_f32<const N: usize>(a: &Seq<f32, N>, b: &Seq<f32, N>) -> bool {
    if a.len != b.len {
        return false;
    }
    let mut i = 0;
    while i < N {
        if i < a.len && !feq(a.a[i], b.a[i]) {
            return false;
        }
        i += 1;
    }
    true
}
pub fn eq_name(a: &Seq<NameVal, NS>, b: &Seq<NameVal, NS>) -> bool {
    if a.len != b.len {
        return false;
    }
    let mut i = 0;
    while i < NS {
        if i < a.len {
            if a.a[i].len != b.a[i].len {
                return false;
            }
            let mut j = 0;
            while j < 8 {
                if a.a[i].b[j] != b.a[i].b[j] {
                    return false;
                }
                j += 1;
            }
        }
        i += 1;
    }
    true
}
pub fn eq_items(a: &Seq<ItemSum, NC>, b: &Seq<ItemSum, NC>) -> bool {
    if a.len != b.len {
        return false;
    }
    let mut i = 0;
    while i < NC {
        if i < a.len && a.a[i] != b.a[i] {
            return false;
        }
        i += 1;
    }
    true
}
pub fn eq_index(a: &Seq<(usize, usize), NX>, b: &Seq<(usize, usize), NX>) -> bool {
    if a.len != b.len {
        return false;
    }
    let mut i = 0;
    while i < NX {
        if i < a.len && a.a[i] != b.a[i] {
            return false;
        }
        i += 1;
    }
    true
}
pub fn eq_bvec(a: &VecSeq<bool>, b: &VecSeq<bool>) -> bool {
    if a.len != b.len {
        return false;
    }
    let mut i = 0;
    while i < NV {
        if i < a.len && !eq_bool(&a.a[i], &b.a[i]) {
            return false;
        }
        i += 1;
    }
    true
}
pub fn eq_ivec(a: &VecSeq<i32>, b: &VecSeq<i32>) -> bool {
    if a.len != b.len {
        return false;
    }
    let mut i = 0;
    while i < NV {
        if i < a.len && !eq_i32(&a.a[i], &b.a[i]) {
            return false;
        }
        i += 1;
    }
    true
}
pub fn eq_fvec(a: &VecSeq<f32>, b: &VecSeq<f32>) -> bool {
    if a.len != b.len {
        return false;
    }
    let mut i = 0;
    while i < NV {
        if i < a.len && !eq_f32(&a.a[i], &b.a[i]) {
            return false;
        }
        i += 1;
    }
    true
}
pub fn eq_queue(a: &QSeq, b: &QSeq) -> bool {
    if a.len != b.len {
        return false;
    }
    let mut i = 0;
    while i < NQ {
        if i < a.len && !(eq_i32(&a.a[i].h, &b.a[i].h) && eq_bool(&a.a[i].b, &b.a[i].b)) {
            return false;
        }
        i += 1;
    }
    true
}
pub fn eq_misc(a: &Snap, b: &Snap) -> bool {
    a.input_len == b.input_len
        && a.output_len == b.output_len
        && eq_queue(&a.inq, &b.inq)
        && eq_queue(&a.outq, &b.outq)
        && a.graph_len == b.graph_len
        && a.bindings == b.bindings
        && a.quote == b.quote
        && a.send == b.send
}

/// Field-by-field comparison, one assertion per stack so that a counterexample names the stack.
/// The assertions sit on separate branches of a nondeterministic choice: Kani's assert! also assumes
/// its condition, so in a straight sequence a failing earlier assertion would mask the later ones.
pub fn assert_snap_eq(got: &Snap, want: &Snap) {
    let which: u8 = kani::any();
    match which {
        0 => assert!(eq_i32(&got.int, &want.int), "INTEGER stack differs from the reference"),
        1 => assert!(eq_f32(&got.flt, &want.flt), "FLOAT stack differs from the reference"),
        2 => assert!(eq_bool(&got.boo, &want.boo), "BOOLEAN stack differs from the reference"),
        3 => assert!(eq_name(&got.name, &want.name), "NAME stack differs from the reference"),
        4 => assert!(eq_items(&got.code, &want.code), "CODE stack differs from the reference"),
        5 => assert!(eq_items(&got.exec, &want.exec), "EXEC stack differs from the reference"),
        6 => assert!(eq_index(&got.index, &want.index), "INDEX stack differs from the reference"),
        7 => assert!(eq_bvec(&got.bvec, &want.bvec), "BOOLVECTOR stack differs from the reference"),
        8 => assert!(eq_ivec(&got.ivec, &want.ivec), "INTVECTOR stack differs from the reference"),
        9 => assert!(eq_fvec(&got.fvec, &want.fvec), "FLOATVECTOR stack differs from the reference"),
        _ => assert!(eq_misc(got, want), "queues / bindings / flags differ from the reference"),
    }
}

pub fn icache() -> InstructionCache {
    InstructionCache::new(Vec::new())
}
