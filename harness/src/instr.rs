//! One-instruction harness body shared by all generated per-instruction harnesses:
//! build a bounded state of a concrete shape with symbolic contents, snapshot, execute the
//! instruction fetched by NAME through the real registry, snapshot, check.
use crate::spec::*;
use crate::state::*;
use pushr::push::instructions::{Instruction, InstructionCache};
use pushr::push::state::PushState;

#[derive(Clone, Copy, PartialEq)]
pub enum Mode {
    /// C01: no assertion of our own; the obligations are the Rust panic sites and unwinding assertions
    NoPanic,
    /// C04 / C05 / C09 / ...: post-state equals the reference model
    Sem,
    /// C10: frame property derived from the reference model's footprint only
    Frame,
    /// C14: the same instruction on two states with identical contents, with unrelated activity in
    /// between (node-id allocation, another instruction run), ends in identical states
    Twice,
    /// C15: no bound on operand magnitude beyond +-COST_RANGE; every loop must stay within the unwind
    /// bound and results must stay within the state-derived size bound
    Cost,
}

pub const COST_RANGE: i32 = 100_000;
/// largest vector length a step may produce from the bounded states: L + D + 1
pub const COST_MAXLEN: usize = 9;

fn cost_pre(st: &PushState) -> bool {
    let mut ok = true;
    let mut i = 0;
    while i < 4 {
        if let Some(v) = st.int_stack.get(i) {
            if *v > COST_RANGE || *v < -COST_RANGE {
                ok = false;
            }
        }
        i += 1;
    }
    ok
}

fn assert_cost(st: &PushState, sh: &Shape) {
    let which: u8 = kani::any();
    match which {
        0 => {
            let mut i = 0;
            while i < NV + 1 {
                if let Some(v) = st.bool_vector_stack.get(i) {
                    assert!(v.values.len() <= COST_MAXLEN, "a BOOLVECTOR sized by operand magnitude, not by the state");
                }
                i += 1;
            }
        }
        1 => {
            let mut i = 0;
            while i < NV + 1 {
                if let Some(v) = st.int_vector_stack.get(i) {
                    assert!(v.values.len() <= COST_MAXLEN, "an INTVECTOR sized by operand magnitude, not by the state");
                }
                i += 1;
            }
        }
        2 => {
            let mut i = 0;
            while i < NV + 1 {
                if let Some(v) = st.float_vector_stack.get(i) {
                    assert!(v.values.len() <= COST_MAXLEN, "a FLOATVECTOR sized by operand magnitude, not by the state");
                }
                i += 1;
            }
        }
        _ => {
            assert!(
                st.int_stack.size() <= sh.ni + 2
                    && st.float_stack.size() <= sh.nf + 2
                    && st.bool_stack.size() <= sh.nb + 2
                    && st.name_stack.size() <= sh.nn + 2
                    && st.code_stack.size() <= sh.nc + 2
                    && st.exec_stack.size() <= sh.ne + 2
                    && st.bool_vector_stack.size() <= sh.nbv + 2
                    && st.int_vector_stack.size() <= sh.niv + 2
                    && st.float_vector_stack.size() <= sh.nfv + 2,
                "a stack grew by more than two items in one step"
            );
        }
    }
}

pub type SpecFn = fn(&Snap) -> Want;
pub type PreFn = fn(&PushState) -> bool;

pub fn pre_none(_s: &PushState) -> bool {
    true
}
/// size-like INTEGER operand kept small (magnitude is C15's subject)
pub fn pre_top_int_small(s: &PushState) -> bool {
    match s.int_stack.get(0) {
        Some(v) => *v <= 4 && *v >= -4,
        None => true,
    }
}
pub fn pre_top_int_nonneg_small(s: &PushState) -> bool {
    match s.int_stack.get(0) {
        Some(v) => *v <= 4 && *v >= 0,
        None => true,
    }
}
fn small_or_extreme(v: i32) -> bool {
    (v >= -64 && v < 64) || v == i32::MIN || v == i32::MAX
}
/// division / remainder equivalence is hard for SAT at full width: operands from [-64,63] + {MIN, MAX}
pub fn pre_int_div_domain(s: &PushState) -> bool {
    let mut ok = true;
    let mut i = 0;
    while i < 2 {
        if let Some(v) = s.int_stack.get(i) {
            if !small_or_extreme(*v) {
                ok = false;
            }
        }
        i += 1;
    }
    ok
}
/// float multiply / divide: operands with at most 7 significant mantissa bits (any sign, exponent,
/// zero, subnormal-with-short-mantissa, inf, NaN)
pub fn pre_flt_short_mantissa(s: &PushState) -> bool {
    let mut ok = true;
    let mut i = 0;
    while i < 2 {
        if let Some(v) = s.float_stack.get(i) {
            if v.to_bits() & 0x0000_ffff != 0 {
                ok = false;
            }
        }
        i += 1;
    }
    ok
}
/// float vector multiply / divide / mean: every element of the top two FLOATVECTORs and the top FLOAT
/// has at most 7 significant mantissa bits
pub fn pre_fvec_short_mantissa(s: &PushState) -> bool {
    let mut ok = true;
    let mut k = 0;
    while k < 2 {
        if let Some(v) = s.float_vector_stack.get(k) {
            let mut i = 0;
            while i < v.values.len() {
                if v.values[i].to_bits() & 0x0000_ffff != 0 {
                    ok = false;
                }
                i += 1;
            }
        }
        k += 1;
    }
    if let Some(v) = s.float_stack.get(0) {
        if v.to_bits() & 0x0000_ffff != 0 {
            ok = false;
        }
    }
    ok
}
pub fn pre_top3_int_small(s: &PushState) -> bool {
    let mut ok = true;
    let mut i = 0;
    while i < 3 {
        if let Some(v) = s.int_stack.get(i) {
            if *v > 4 || *v < -4 {
                ok = false;
            }
        }
        i += 1;
    }
    ok
}

fn prefix_i32<const N: usize>(got: &Seq<i32, N>, before: &Seq<i32, N>) -> bool {
    if got.len > before.len {
        return false;
    }
    let mut i = 0;
    while i < N {
        if i < got.len && got.a[i] != before.a[i] {
            return false;
        }
        i += 1;
    }
    true
}
fn prefix_f32<const N: usize>(got: &Seq<f32, N>, before: &Seq<f32, N>) -> bool {
    if got.len > before.len {
        return false;
    }
    let mut i = 0;
    while i < N {
        if i < got.len && !feq(got.a[i], before.a[i]) {
            return false;
        }
        i += 1;
    }
    true
}
fn prefix_bool<const N: usize>(got: &Seq<bool, N>, before: &Seq<bool, N>) -> bool {
    if got.len > before.len {
        return false;
    }
    let mut i = 0;
    while i < N {
        if i < got.len && got.a[i] != before.a[i] {
            return false;
        }
        i += 1;
    }
    true
}
fn prefix_name(got: &Seq<NameVal, NS>, before: &Seq<NameVal, NS>) -> bool {
    if got.len > before.len {
        return false;
    }
    let mut t = *before;
    t.len = got.len;
    eq_name(got, &t)
}
fn prefix_items(got: &Seq<ItemSum, NC>, before: &Seq<ItemSum, NC>) -> bool {
    if got.len > before.len {
        return false;
    }
    let mut t = *before;
    t.len = got.len;
    eq_items(got, &t)
}
fn prefix_index(got: &Seq<(usize, usize), NX>, before: &Seq<(usize, usize), NX>) -> bool {
    if got.len > before.len {
        return false;
    }
    let mut t = *before;
    t.len = got.len;
    eq_index(got, &t)
}
fn prefix_bvec(got: &VecSeq<bool>, before: &VecSeq<bool>) -> bool {
    if got.len > before.len {
        return false;
    }
    let mut t = *before;
    t.len = got.len;
    eq_bvec(got, &t)
}
fn prefix_ivec(got: &VecSeq<i32>, before: &VecSeq<i32>) -> bool {
    if got.len > before.len {
        return false;
    }
    let mut t = *before;
    t.len = got.len;
    eq_ivec(got, &t)
}
fn prefix_fvec(got: &VecSeq<f32>, before: &VecSeq<f32>) -> bool {
    if got.len > before.len {
        return false;
    }
    let mut t = *before;
    t.len = got.len;
    eq_fvec(got, &t)
}

/// Did not fire: at most already-taken operands were consumed (a top suffix of the operand stacks);
/// nothing was pushed, nothing else changed.
fn assert_unfired(got: &Snap, before: &Snap, ops: u32) {
    let which: u8 = kani::any();
    match which {
        0 => {
            if ops & M_INT != 0 {
                assert!(prefix_i32(&got.int, &before.int), "unfired: INTEGER stack changed beyond consuming operands");
            } else {
                assert!(eq_i32(&got.int, &before.int), "unfired: INTEGER stack touched (not an operand stack)");
            }
        }
        1 => {
            if ops & M_FLT != 0 {
                assert!(prefix_f32(&got.flt, &before.flt), "unfired: FLOAT stack changed beyond consuming operands");
            } else {
                assert!(eq_f32(&got.flt, &before.flt), "unfired: FLOAT stack touched (not an operand stack)");
            }
        }
        2 => {
            if ops & M_BOOL != 0 {
                assert!(prefix_bool(&got.boo, &before.boo), "unfired: BOOLEAN stack changed beyond consuming operands");
            } else {
                assert!(eq_bool(&got.boo, &before.boo), "unfired: BOOLEAN stack touched (not an operand stack)");
            }
        }
        3 => {
            if ops & M_NAME != 0 {
                assert!(prefix_name(&got.name, &before.name), "unfired: NAME stack changed beyond consuming operands");
            } else {
                assert!(eq_name(&got.name, &before.name), "unfired: NAME stack touched (not an operand stack)");
            }
        }
        4 => {
            if ops & M_CODE != 0 {
                assert!(prefix_items(&got.code, &before.code), "unfired: CODE stack changed beyond consuming operands");
            } else {
                assert!(eq_items(&got.code, &before.code), "unfired: CODE stack touched (not an operand stack)");
            }
        }
        5 => {
            if ops & M_EXEC != 0 {
                assert!(prefix_items(&got.exec, &before.exec), "unfired: EXEC stack changed beyond consuming operands");
            } else {
                assert!(eq_items(&got.exec, &before.exec), "unfired: EXEC stack touched (not an operand stack)");
            }
        }
        6 => {
            if ops & M_INDEX != 0 {
                assert!(prefix_index(&got.index, &before.index), "unfired: INDEX stack changed beyond consuming operands");
            } else {
                assert!(eq_index(&got.index, &before.index), "unfired: INDEX stack touched (not an operand stack)");
            }
        }
        7 => {
            if ops & M_BVEC != 0 {
                assert!(prefix_bvec(&got.bvec, &before.bvec), "unfired: BOOLVECTOR stack changed beyond consuming operands");
            } else {
                assert!(eq_bvec(&got.bvec, &before.bvec), "unfired: BOOLVECTOR stack touched (not an operand stack)");
            }
        }
        8 => {
            if ops & M_IVEC != 0 {
                assert!(prefix_ivec(&got.ivec, &before.ivec), "unfired: INTVECTOR stack changed beyond consuming operands");
            } else {
                assert!(eq_ivec(&got.ivec, &before.ivec), "unfired: INTVECTOR stack touched (not an operand stack)");
            }
        }
        9 => {
            if ops & M_FVEC != 0 {
                assert!(prefix_fvec(&got.fvec, &before.fvec), "unfired: FLOATVECTOR stack changed beyond consuming operands");
            } else {
                assert!(eq_fvec(&got.fvec, &before.fvec), "unfired: FLOATVECTOR stack touched (not an operand stack)");
            }
        }
        10 => assert!(
            (ops & M_IN != 0 && got.input_len <= before.input_len) || eq_queue(&got.inq, &before.inq),
            "unfired: INPUT queue changed"
        ),
        11 => assert!(eq_queue(&got.outq, &before.outq), "unfired: OUTPUT queue changed"),
        12 => assert!(got.graph_len == before.graph_len, "unfired: GRAPH stack changed"),
        13 => assert!(got.bindings == before.bindings, "unfired: a name binding was created"),
        _ => assert!(got.quote == before.quote && got.send == before.send, "unfired: a flag changed"),
    }
}

/// Fired: everything outside operands|results is untouched.
fn assert_frame(got: &Snap, before: &Snap, fp: u32) {
    let which: u8 = kani::any();
    if which == 0 && fp & M_INT == 0 {
        assert!(eq_i32(&got.int, &before.int), "frame: INTEGER stack is outside the documented footprint");
    }
    if which == 1 && fp & M_FLT == 0 {
        assert!(eq_f32(&got.flt, &before.flt), "frame: FLOAT stack is outside the documented footprint");
    }
    if which == 2 && fp & M_BOOL == 0 {
        assert!(eq_bool(&got.boo, &before.boo), "frame: BOOLEAN stack is outside the documented footprint");
    }
    if which == 3 && fp & M_NAME == 0 {
        assert!(eq_name(&got.name, &before.name), "frame: NAME stack is outside the documented footprint");
    }
    if which == 4 && fp & M_CODE == 0 {
        assert!(eq_items(&got.code, &before.code), "frame: CODE stack is outside the documented footprint");
    }
    if which == 5 && fp & M_EXEC == 0 {
        assert!(eq_items(&got.exec, &before.exec), "frame: EXEC stack is outside the documented footprint");
    }
    if which == 6 && fp & M_INDEX == 0 {
        assert!(eq_index(&got.index, &before.index), "frame: INDEX stack is outside the documented footprint");
    }
    if which == 7 && fp & M_BVEC == 0 {
        assert!(eq_bvec(&got.bvec, &before.bvec), "frame: BOOLVECTOR stack is outside the documented footprint");
    }
    if which == 8 && fp & M_IVEC == 0 {
        assert!(eq_ivec(&got.ivec, &before.ivec), "frame: INTVECTOR stack is outside the documented footprint");
    }
    if which == 9 && fp & M_FVEC == 0 {
        assert!(eq_fvec(&got.fvec, &before.fvec), "frame: FLOATVECTOR stack is outside the documented footprint");
    }
    if which == 10 && fp & M_IN == 0 {
        assert!(eq_queue(&got.inq, &before.inq), "frame: INPUT queue is outside the documented footprint");
    }
    if which == 11 && fp & M_OUT == 0 {
        assert!(eq_queue(&got.outq, &before.outq), "frame: OUTPUT queue is outside the documented footprint");
    }
    if which == 20 {
        assert!(got.graph_len == before.graph_len, "frame: GRAPH stack is outside the documented footprint");
    }
    if which == 21 {
        assert!(got.bindings == before.bindings, "frame: name bindings are outside the documented footprint");
    }
    if which == 12 && fp & M_FLAGS == 0 {
        assert!(got.quote == before.quote && got.send == before.send, "frame: flags are outside the documented footprint");
    }
}

fn assert_sem(got: &Snap, w: &Want) {
    let mut want = w.s;
    if w.free_int_top && got.int.len == want.int.len && want.int.len >= 1 && want.int.len <= NS {
        want.int.a[want.int.len - 1] = got.int.a[got.int.len - 1];
    }
    if w.free_flt_top && got.flt.len == want.flt.len && want.flt.len >= 1 && want.flt.len <= NS {
        want.flt.a[want.flt.len - 1] = got.flt.a[got.flt.len - 1];
    }
    if w.free_fvec_top && got.fvec.len == want.fvec.len && want.fvec.len >= 1 && want.fvec.len <= NV {
        let k = want.fvec.len - 1;
        if got.fvec.a[k].len == want.fvec.a[k].len {
            want.fvec.a[k] = got.fvec.a[k];
        }
    }
    if w.free_ivec_mask != 0 && got.ivec.len == want.ivec.len && want.ivec.len >= 1 && want.ivec.len <= NV {
        let k = want.ivec.len - 1;
        let mut i = 0;
        while i < NL {
            if w.free_ivec_mask & (1u32 << i) != 0 {
                want.ivec.a[k].a[i] = got.ivec.a[k].a[i];
            }
            i += 1;
        }
    }
    assert_snap_eq(got, &want);
}

pub fn run_shape(ins: &mut Instruction, sh: &Shape, spec: Option<SpecFn>, mode: Mode, pre: PreFn) {
    run_shape_opt(ins, sh, spec, mode, pre, None);
}

/// Same, with the top INTEGER (the index operand) set to a concrete value.
pub fn run_shape_idx(ins: &mut Instruction, sh: &Shape, spec: Option<SpecFn>, mode: Mode, pre: PreFn, idx: i32) {
    run_shape_opt(ins, sh, spec, mode, pre, Some(idx));
}

/// Execute and check a state that the caller has already built (and possibly concretised).
pub fn run_state(ins: &mut Instruction, st: PushState, sh: &Shape, spec: Option<SpecFn>, mode: Mode) {
    run_built(ins, st, sh, spec, mode, pre_none, None);
}

fn run_shape_opt(ins: &mut Instruction, sh: &Shape, spec: Option<SpecFn>, mode: Mode, pre: PreFn, idx: Option<i32>) {
    let mut st = build(sh);
    if let Some(v) = idx {
        if let Some(t) = st.int_stack.get_mut(0) {
            *t = v;
        }
    }
    run_built(ins, st, sh, spec, mode, pre, idx);
}

fn run_built(ins: &mut Instruction, mut st: PushState, sh: &Shape, spec: Option<SpecFn>, mode: Mode, pre: PreFn, idx: Option<i32>) {
    kani::assume(pre(&st));
    let cache = icache();
    if mode == Mode::Cost {
        kani::assume(cost_pre(&st));
        (ins.execute)(&mut st, &cache);
        assert_cost(&st, sh);
        std::mem::forget(st);
        std::mem::forget(cache);
        return;
    }
    if mode == Mode::Twice {
        let mut st2 = twin(&st, sh);
        (ins.execute)(&mut st, &cache);
        let a = snap(&st);
        // unrelated activity between the two runs: process-wide node ids are handed out and the same
        // instruction runs on an UNRELATED state of the same shape (the solver picks its contents
        // adversarially, e.g. to collide with an incompletely keyed cache)
        let n1 = pushr::push::graph::Node::new(0);
        let n2 = pushr::push::graph::Node::new(1);
        assert!(n1.get_id() != n2.get_id(), "node id handed out twice");
        let mut other = build(sh);
        if let Some(v) = idx {
            if let Some(t) = other.int_stack.get_mut(0) {
                *t = v;
            }
        }
        kani::assume(pre(&other));
        (ins.execute)(&mut other, &cache);
        (ins.execute)(&mut st2, &cache);
        let b = snap(&st2);
        std::mem::forget(st);
        std::mem::forget(st2);
        std::mem::forget(other);
        std::mem::forget(cache);
        assert_snap_eq(&a, &b);
        return;
    }
    if mode == Mode::NoPanic {
        (ins.execute)(&mut st, &cache);
        std::mem::forget(st);
        std::mem::forget(cache);
        return;
    }
    let before = snap(&st);
    (ins.execute)(&mut st, &cache);
    let got = snap(&st);
    std::mem::forget(st);
    std::mem::forget(cache);
    let w = (spec.unwrap())(&before);
    if !w.fired {
        assert_unfired(&got, &before, w.operands);
    } else if mode == Mode::Sem {
        assert_sem(&got, &w);
    } else {
        assert_frame(&got, &before, w.operands | w.results);
    }
}
