//! One-instruction harness body shared by all generated per-instruction harnesses:
//! build a bounded state of a concrete shape with symbolic contents, snapshot, execute the
//! instruction fetched by NAME through the real registry, snapshot, check.
use crate::spec::*;
use crate::state::*;
use pushr::push::instructions::{Instruction, InstructionCache};
use pushr::push::state::PushState;

#[derive(Clone, Copy, PartialEq)]
pub enum Mode {
    /// C01: no assertion of our own; the obligations are the Rust panic sites and unwinding assertions
    NoPanic,
    /// C04 / C05 / C09 / ...: post-state equals the reference model
    Sem,
    /// C10: frame property derived from the reference model's footprint only
    Frame,
}

pub type SpecFn = fn(&Snap) -> Want;
pub type PreFn = fn(&PushState) -> bool;

pub fn pre_none(_s: &PushState) -> bool {
    true
}
/// size-like INTEGER operand kept small (magnitude is C15's subject)
pub fn pre_top_int_small(s: &PushState) -> bool {
    match s.int_stack.get(0) {
        Some(v) => *v <= 4 && *v >= -4,
        None => true,
    }
}
pub fn pre_top_int_nonneg_small(s: &PushState) -> bool {
    match s.int_stack.get(0) {
        Some(v) => *v <= 4 && *v >= 0,
        None => true,
    }
}
pub fn pre_top3_int_small(s: &PushState) -> bool {
    let mut ok = true;
    let mut i = 0;
    while i < 3 {
        if let Some(v) = s.int_stack.get(i) {
            if *v > 4 || *v < -4 {
                ok = false;
            }
        }
        i += 1;
    }
    ok
}

fn prefix_i32<const N: usize>(got: &Seq<i32, N>, before: &Seq<i32, N>) -> bool {
    if got.len > before.len {
        return false;
    }
    let mut i = 0;
    while i < N {
        if i < got.len && got.a[i] != before.a[i] {
            return false;
        }
        i += 1;
    }
    true
}
fn prefix_f32<const N: usize>(got: &Seq<f32, N>, before: &Seq<f32, N>) -> bool {
    if got.len > before.len {
        return false;
    }
    let mut i = 0;
    while i < N {
        if i < got.len && !feq(got.a[i], before.a[i]) {
            return false;
        }
        i += 1;
    }
    true
}
fn prefix_bool<const N: usize>(got: &Seq<bool, N>, before: &Seq<bool, N>) -> bool {
    if got.len > before.len {
        return false;
    }
    let mut i = 0;
    while i < N {
        if i < got.len && got.a[i] != before.a[i] {
            return false;
        }
        i += 1;
    }
    true
}
fn prefix_name(got: &Seq<NameVal, NS>, before: &Seq<NameVal, NS>) -> bool {
    if got.len > before.len {
        return false;
    }
    let mut t = *before;
    t.len = got.len;
    eq_name(got, &t)
}
fn prefix_items(got: &Seq<ItemSum, NC>, before: &Seq<ItemSum, NC>) -> bool {
    if got.len > before.len {
        return false;
    }
    let mut t = *before;
    t.len = got.len;
    eq_items(got, &t)
}
fn prefix_index(got: &Seq<(usize, usize), NX>, before: &Seq<(usize, usize), NX>) -> bool {
    if got.len > before.len {
        return false;
    }
    let mut t = *before;
    t.len = got.len;
    eq_index(got, &t)
}
fn prefix_bvec(got: &VecSeq<bool>, before: &VecSeq<bool>) -> bool {
    if got.len > before.len {
        return false;
    }
    let mut t = *before;
    t.len = got.len;
    eq_bvec(got, &t)
}
fn prefix_ivec(got: &VecSeq<i32>, before: &VecSeq<i32>) -> bool {
    if got.len > before.len {
        return false;
    }
    let mut t = *before;
    t.len = got.len;
    eq_ivec(got, &t)
}
fn prefix_fvec(got: &VecSeq<f32>, before: &VecSeq<f32>) -> bool {
    if got.len > before.len {
        return false;
    }
    let mut t = *before;
    t.len = got.len;
    eq_fvec(got, &t)
}

/// Did not fire: at most already-taken operands were consumed (a top suffix of the operand stacks);
/// nothing was pushed, nothing else changed.
fn assert_unfired(got: &Snap, before: &Snap, ops: u32) {
    if ops & M_INT != 0 {
        assert!(prefix_i32(&got.int, &before.int), "unfired: INTEGER stack changed beyond consuming operands");
    } else {
        assert!(eq_i32(&got.int, &before.int), "unfired: INTEGER stack touched (not an operand stack)");
    }
    if ops & M_FLT != 0 {
        assert!(prefix_f32(&got.flt, &before.flt), "unfired: FLOAT stack changed beyond consuming operands");
    } else {
        assert!(eq_f32(&got.flt, &before.flt), "unfired: FLOAT stack touched (not an operand stack)");
    }
    if ops & M_BOOL != 0 {
        assert!(prefix_bool(&got.boo, &before.boo), "unfired: BOOLEAN stack changed beyond consuming operands");
    } else {
        assert!(eq_bool(&got.boo, &before.boo), "unfired: BOOLEAN stack touched (not an operand stack)");
    }
    if ops & M_NAME != 0 {
        assert!(prefix_name(&got.name, &before.name), "unfired: NAME stack changed beyond consuming operands");
    } else {
        assert!(eq_name(&got.name, &before.name), "unfired: NAME stack touched (not an operand stack)");
    }
    if ops & M_CODE != 0 {
        assert!(prefix_items(&got.code, &before.code), "unfired: CODE stack changed beyond consuming operands");
    } else {
        assert!(eq_items(&got.code, &before.code), "unfired: CODE stack touched (not an operand stack)");
    }
    if ops & M_EXEC != 0 {
        assert!(prefix_items(&got.exec, &before.exec), "unfired: EXEC stack changed beyond consuming operands");
    } else {
        assert!(eq_items(&got.exec, &before.exec), "unfired: EXEC stack touched (not an operand stack)");
    }
    if ops & M_INDEX != 0 {
        assert!(prefix_index(&got.index, &before.index), "unfired: INDEX stack changed beyond consuming operands");
    } else {
        assert!(eq_index(&got.index, &before.index), "unfired: INDEX stack touched (not an operand stack)");
    }
    if ops & M_BVEC != 0 {
        assert!(prefix_bvec(&got.bvec, &before.bvec), "unfired: BOOLVECTOR stack changed beyond consuming operands");
    } else {
        assert!(eq_bvec(&got.bvec, &before.bvec), "unfired: BOOLVECTOR stack touched (not an operand stack)");
    }
    if ops & M_IVEC != 0 {
        assert!(prefix_ivec(&got.ivec, &before.ivec), "unfired: INTVECTOR stack changed beyond consuming operands");
    } else {
        assert!(eq_ivec(&got.ivec, &before.ivec), "unfired: INTVECTOR stack touched (not an operand stack)");
    }
    if ops & M_FVEC != 0 {
        assert!(prefix_fvec(&got.fvec, &before.fvec), "unfired: FLOATVECTOR stack changed beyond consuming operands");
    } else {
        assert!(eq_fvec(&got.fvec, &before.fvec), "unfired: FLOATVECTOR stack touched (not an operand stack)");
    }
    assert!(
        got.input_len <= before.input_len && (ops & M_IN != 0 || got.input_len == before.input_len),
        "unfired: INPUT queue changed"
    );
    assert!(got.output_len == before.output_len, "unfired: OUTPUT queue changed");
    assert!(got.graph_len == before.graph_len, "unfired: GRAPH stack changed");
    assert!(got.bindings == before.bindings, "unfired: a name binding was created");
    assert!(got.quote == before.quote && got.send == before.send, "unfired: a flag changed");
}

/// Fired: everything outside operands|results is untouched.
fn assert_frame(got: &Snap, before: &Snap, fp: u32) {
    if fp & M_INT == 0 {
        assert!(eq_i32(&got.int, &before.int), "frame: INTEGER stack is outside the documented footprint");
    }
    if fp & M_FLT == 0 {
        assert!(eq_f32(&got.flt, &before.flt), "frame: FLOAT stack is outside the documented footprint");
    }
    if fp & M_BOOL == 0 {
        assert!(eq_bool(&got.boo, &before.boo), "frame: BOOLEAN stack is outside the documented footprint");
    }
    if fp & M_NAME == 0 {
        assert!(eq_name(&got.name, &before.name), "frame: NAME stack is outside the documented footprint");
    }
    if fp & M_CODE == 0 {
        assert!(eq_items(&got.code, &before.code), "frame: CODE stack is outside the documented footprint");
    }
    if fp & M_EXEC == 0 {
        assert!(eq_items(&got.exec, &before.exec), "frame: EXEC stack is outside the documented footprint");
    }
    if fp & M_INDEX == 0 {
        assert!(eq_index(&got.index, &before.index), "frame: INDEX stack is outside the documented footprint");
    }
    if fp & M_BVEC == 0 {
        assert!(eq_bvec(&got.bvec, &before.bvec), "frame: BOOLVECTOR stack is outside the documented footprint");
    }
    if fp & M_IVEC == 0 {
        assert!(eq_ivec(&got.ivec, &before.ivec), "frame: INTVECTOR stack is outside the documented footprint");
    }
    if fp & M_FVEC == 0 {
        assert!(eq_fvec(&got.fvec, &before.fvec), "frame: FLOATVECTOR stack is outside the documented footprint");
    }
    if fp & M_IN == 0 {
        assert!(got.input_len == before.input_len, "frame: INPUT queue is outside the documented footprint");
    }
    if fp & M_OUT == 0 {
        assert!(got.output_len == before.output_len, "frame: OUTPUT queue is outside the documented footprint");
    }
    assert!(got.graph_len == before.graph_len, "frame: GRAPH stack is outside the documented footprint");
    assert!(got.bindings == before.bindings, "frame: name bindings are outside the documented footprint");
    if fp & M_FLAGS == 0 {
        assert!(got.quote == before.quote && got.send == before.send, "frame: flags are outside the documented footprint");
    }
}

fn assert_sem(got: &Snap, w: &Want) {
    let mut want = w.s;
    if w.free_int_top && got.int.len == want.int.len && want.int.len >= 1 && want.int.len <= NS {
        want.int.a[want.int.len - 1] = got.int.a[got.int.len - 1];
    }
    if w.free_flt_top && got.flt.len == want.flt.len && want.flt.len >= 1 && want.flt.len <= NS {
        want.flt.a[want.flt.len - 1] = got.flt.a[got.flt.len - 1];
    }
    if w.free_fvec_top && got.fvec.len == want.fvec.len && want.fvec.len >= 1 && want.fvec.len <= NV {
        let k = want.fvec.len - 1;
        if got.fvec.a[k].len == want.fvec.a[k].len {
            want.fvec.a[k] = got.fvec.a[k];
        }
    }
    assert_snap_eq(got, &want);
}

pub fn run_shape(ins: &mut Instruction, sh: &Shape, spec: Option<SpecFn>, mode: Mode, pre: PreFn) {
    let mut st = build(sh);
    kani::assume(pre(&st));
    let cache = icache();
    if mode == Mode::NoPanic {
        (ins.execute)(&mut st, &cache);
        std::mem::forget(st);
        std::mem::forget(cache);
        return;
    }
    let before = snap(&st);
    (ins.execute)(&mut st, &cache);
    let got = snap(&st);
    std::mem::forget(st);
    std::mem::forget(cache);
    let w = (spec.unwrap())(&before);
    if !w.fired {
        assert_unfired(&got, &before, w.operands);
    } else if mode == Mode::Sem {
        assert_sem(&got, &w);
    } else {
        assert_frame(&got, &before, w.operands | w.results);
    }
}
