//! C14 — sequential part: graph node identifiers are never handed out twice, and instruction results do
//! not depend on hidden process state (Mode::Twice harnesses are generated per instruction).
//! Concurrent schedules, the CLI front end and whole-program runs are outside the claim (DESIGN.md).
use pushr::push::graph::Node;

/// k calls of the only function that touches the process-wide counter: ids pairwise distinct and
/// strictly increasing, whatever was allocated before (arbitrary number of earlier calls <= 3).
#[kani::proof]
#[kani::unwind(8)]
pub fn c14_node_ids_unique() {
    let warm: u8 = kani::any();
    kani::assume(warm <= 3);
    let mut i = 0;
    while i < 3 {
        if i < warm {
            let n = Node::new(kani::any());
            std::mem::forget(n);
        }
        i += 1;
    }
    let a = Node::new(kani::any());
    let b = Node::new(kani::any());
    let c = Node::new(kani::any());
    let d = Node::new(kani::any());
    assert!(a.get_id() < b.get_id() && b.get_id() < c.get_id() && c.get_id() < d.get_id(), "node ids are not strictly increasing (an id was reused or the counter did not advance)");
    assert!(a.get_id() >= 1, "node ids start at 1");
    kani::cover!(true, "reached end");
}

/// the state of a node is what was passed in; the id does not depend on it
#[kani::proof]
#[kani::unwind(4)]
pub fn c14_node_state_independent_of_id() {
    let s1: i32 = kani::any();
    let s2: i32 = kani::any();
    let a = Node::new(s1);
    let b = Node::new(s2);
    assert!(a.get_state() == s1 && b.get_state() == s2);
    assert!(b.get_id() == a.get_id() + 1, "ids are consecutive for sequential allocation");
    kani::cover!(true, "reached end");
}

/// 200 sequential allocations: ids strictly increasing (no reuse at any block / wrap boundary up to 200)
#[kani::proof]
#[kani::unwind(203)]
pub fn c14_node_ids_unique_200() {
    let first = Node::new(0);
    let mut prev = first.get_id();
    let mut i = 0;
    while i < 200 {
        let n = Node::new(i);
        assert!(n.get_id() > prev, "a node id was handed out twice or went backwards");
        prev = n.get_id();
        i += 1;
    }
    assert!(prev == first.get_id() + 200, "sequential allocation must advance by exactly one per node");
    kani::cover!(true, "reached end");
}
