#!/usr/bin/env python3
"""Collects measured per-harness wall times (quick bounds, 14 parallel CBMC processes) from kani.json files
into tools/durations.json; gen.py uses them as the cost of a harness in the quick-tier budget.
usage: durations.py <kani.json> [...]"""
import json, os, sys
V = os.path.dirname(os.path.dirname(os.path.abspath(__file__)))
p = os.path.join(V, "tools", "durations.json")
d = json.load(open(p)) if os.path.exists(p) else {}
for f in sys.argv[1:]:
    k = json.load(open(f))
    err = {e["harness_id"]: e.get("exit_status") for e in k.get("error_details", [])}
    for r in k["verification_results"]["results"]:
        name = r["harness_id"]
        secs = round(r["duration_ms"] / 1000.0, 1)
        if err.get(name) in ("timeout", "out_of_memory"):
            secs = 999.0
        d[name] = max(secs, d.get(name, 0)) if d.get(name, 0) < 999 or secs >= 999 else secs
json.dump(d, open(p, "w"), indent=0, sort_keys=True)
print(len(d), "harness durations")
