"""Per-instruction harness catalogue: which property the semantic harness of an instruction belongs to
and which stacks are its operands (their depths / vector lengths are enumerated concretely; every
other stack is a non-empty bystander with symbolic contents).

entry: name -> (property tag of the semantic harness, {stack: need}, pre-assumption fn name or None)
stack keys: ni nf nb nn nc ne nx nbv niv nfv nin nout
"""

MANIP_TYPES = {
    "BOOLEAN": "nb",
    "INTEGER": "ni",
    "FLOAT": "nf",
    "NAME": "nn",
    "CODE": "nc",
    "EXEC": "ne",
    "BOOLVECTOR": "nbv",
    "INTVECTOR": "niv",
    "FLOATVECTOR": "nfv",
}

CAT = {}


OPTS = {}


def add(name, prop, needs, pre=None, sem_pre=None, **opts):
    """pre: assumption for every mode; sem_pre: additional operand-domain bound for the semantic/frame
    harnesses only (the no-panic harness keeps the full domain).
    opts: vlen_enum=False -> vector lengths are not enumerated (fixed 1);
          idx_enum=True   -> the INTEGER index operand takes a concrete set of values instead of any i32
                             (Vec::remove/insert on large elements with a symbolic index exhausts CBMC);
          top_int=[..]    -> the top INTEGER (a size operand) takes these concrete values (a symbolic size is
                             a symbolic allocation, which CBMC cannot handle)."""
    CAT[name] = (prop, needs, pre, sem_pre)
    OPTS[name] = opts


# ---- stack manipulation (C05) -------------------------------------------------------------------
for ty, key in MANIP_TYPES.items():
    item = ty in ("CODE", "EXEC")
    big = ty in ("CODE", "EXEC", "NAME", "BOOLVECTOR", "INTVECTOR", "FLOATVECTOR")
    for op in ("DUP", "POP", "FLUSH"):
        if not item:
            add("%s.%s" % (ty, op), "C05", {key: 2}, vlen_enum=False)
    add("%s.SWAP" % ty, "C05", {key: 2}, vlen_enum=False)
    if ty in ("BOOLEAN", "INTEGER", "FLOAT", "NAME", "CODE", "EXEC"):
        add("%s.ROT" % ty, "C05", {key: 3}, vlen_enum=False)
    for op in ("YANK", "SHOVE") + (() if item else ("YANKDUP",)):
        if key == "ni":
            add("%s.%s" % (ty, op), "C05", {"ni": 4})
        else:
            add("%s.%s" % (ty, op), "C05", {"ni": 1, key: 3}, vlen_enum=False, idx_enum=big)
    add("%s.STACKDEPTH" % ty, "C05", {key: 2}, vlen_enum=False)
    add("%s.ID" % ty, "C10", {})

# ---- scalar semantics (C04) ---------------------------------------------------------------------
for op in ("=", "AND", "OR"):
    add("BOOLEAN." + op, "C04", {"nb": 2})
add("BOOLEAN.NOT", "C04", {"nb": 1})
add("BOOLEAN.FROMFLOAT", "C04", {"nf": 1})
add("BOOLEAN.FROMINTEGER", "C04", {"ni": 1})
add("BOOLEAN.RAND", "C13", {})
for op in ("*", "+", "-", "<", "=", ">", "MAX", "MIN", "DDUP"):
    add("INTEGER." + op, "C04", {"ni": 2})
for op in ("%", "/"):
    add("INTEGER." + op, "C04", {"ni": 2}, None, "pre_int_div_domain")
add("INTEGER.ABS", "C04", {"ni": 1})
add("INTEGER.FROMBOOLEAN", "C04", {"nb": 1})
add("INTEGER.FROMFLOAT", "C04", {"nf": 1})
add("INTEGER.RAND", "C13", {})
for op in ("%", "+", "-", "<", "=", ">", "MAX", "MIN"):
    add("FLOAT." + op, "C04", {"nf": 2})
add("FLOAT.*", "C04", {"nf": 2}, None, "pre_flt_short_mantissa")
add("FLOAT./", "C04", {"nf": 2})
for op in ("SIN", "COS", "TAN", "EXP"):
    add("FLOAT." + op, "C04", {"nf": 1})
add("FLOAT.FROMBOOLEAN", "C04", {"nb": 1})
add("FLOAT.FROMINTEGER", "C04", {"ni": 1})
add("FLOAT.RAND", "C13", {})
add("NAME.=", "C04", {"nn": 2})
add("NAME.CAT", "C04", {"nn": 2})
add("NAME.QUOTE", "C10", {})
add("NAME.SEND", "C10", {})
add("NAME.RAND", "C13", {})
add("NAME.RANDBOUNDNAME", "C13", {})
add("CODE.FROMBOOLEAN", "C04", {"nb": 1})
add("CODE.FROMFLOAT", "C04", {"nf": 1})
add("CODE.FROMINTEGER", "C04", {"ni": 1})
add("CODE.FROMNAME", "C04", {"nn": 1})

# ---- CODE instructions that only inspect / move items (C08 subset) ---------------------------------
add("CODE.QUOTE", "C10", {"ne": 1})
add("CODE.APPEND", "C10", {"nc": 2})
# CODE.ATOM drops a temporary Item (Item::empty_list()): out of reach
add("CODE.NULL", "C10", {"nc": 1})
add("CODE.LENGTH", "C10", {"nc": 1})
# CODE.SIZE recurses over an Item with an unresolved discriminant: out of reach
add("CODE.NOOP", "C10", {})

# ---- INDEX (frame / crash freedom only; semantics belong to C06 which is not claimed) -------------
add("INDEX.CURRENT", "C10", {"nx": 1})
add("INDEX.DEFINE", "C10", {"ni": 1})
add("INDEX.DESTINATION", "C10", {"nx": 1})
add("INDEX.FLUSH", "C10", {"nx": 1})
add("INDEX.INCREASE", "C10", {"nx": 1})
add("INDEX.POP", "C10", {"nx": 1})

# ---- IO (C17) -------------------------------------------------------------------------------------
add("INPUT.AVAILABLE", "C17", {"nin": 1})
add("INPUT.GET", "C17", {"ni": 1, "nin": 1})
add("INPUT.NEXT", "C17", {"nin": 2})
add("INPUT.READ", "C17", {"nin": 1})
add("INPUT.STACKDEPTH", "C17", {"nin": 1})
add("OUTPUT.FLUSH", "C17", {"nout": 1})
add("OUTPUT.WRITE", "C17", {"nbv": 1, "niv": 1, "nout": 1})
add("OUTPUT.STACKDEPTH", "C17", {"nout": 1})
add("GRAPH.STACKDEPTH", "C10", {})

# ---- vectors (C09) --------------------------------------------------------------------------------
for ty, key, sk in (("BOOLVECTOR", "nbv", "nb"), ("INTVECTOR", "niv", "ni"), ("FLOATVECTOR", "nfv", "nf")):
    add(ty + ".GET", "C09", {"ni": 1, key: 1})
    if ty == "INTVECTOR":
        add(ty + ".SET", "C09", {"ni": 2, key: 1})
    else:
        add(ty + ".SET", "C09", {"ni": 1, sk: 1, key: 1})
    add(ty + ".EQUAL", "C09", {key: 2})
    add(ty + ".LENGTH", "C09", {key: 1})
    add(ty + ".ONES", "C09", {"ni": 1}, top_int=[-1, 0, 1, 2, 3])
    add(ty + ".ZEROS", "C09", {"ni": 1}, top_int=[-1, 0, 1, 2, 3])
    # ROTATE, SORT*ASC, SORT*DESC: std's rotate / sort on a vector that lives inside the stack's heap buffer do
    # not finish under CBMC (600 s; the same calls on a local 2-element Vec take 0.5 s): NOT covered.
    # Their reference models stay in spec.rs for a future engine.
for op in ("AND", "OR"):
    add("BOOLVECTOR." + op, "C09", {"ni": 1, "nbv": 2})
add("BOOLVECTOR.NOT", "C09", {"ni": 1, "nbv": 1})
add("BOOLVECTOR.COUNT", "C09", {"nbv": 1})
add("BOOLVECTOR.RAND", "C13", {"ni": 1, "nf": 1}, top_int=[-1, 0, 1, 2, 3], no_cost=True)
for op in ("+", "-"):
    add("INTVECTOR." + op, "C09", {"ni": 1, "niv": 2})
for op in ("+", "-"):
    add("FLOATVECTOR." + op, "C09", {"ni": 1, "nfv": 2})
add("FLOATVECTOR.*", "C09", {"ni": 1, "nfv": 2}, None, "pre_fvec_short_mantissa")
add("FLOATVECTOR./", "C09", {"ni": 1, "nfv": 2})
add("INTVECTOR.APPEND", "C09", {"ni": 1, "niv": 1})
add("FLOATVECTOR.APPEND", "C09", {"nf": 1, "nfv": 1})
# INTVECTOR.BOOLINDEX builds a result vector of symbolic length by reallocation: out of memory under CBMC, NOT covered
add("INTVECTOR.CONTAINS", "C09", {"ni": 1, "niv": 1})
add("INTVECTOR.EMPTY", "C09", {})
add("FLOATVECTOR.EMPTY", "C09", {})
add("INTVECTOR.FROMINT", "C09", {"ni": 3}, top_int=[-1, 0, 1, 2, 3, 4])
add("INTVECTOR.MEAN", "C09", {"niv": 1})
add("FLOATVECTOR.MEAN", "C09", {"nfv": 1}, None, "pre_fvec_short_mantissa")
add("INTVECTOR.SUM", "C09", {"niv": 1})
add("FLOATVECTOR.SUM", "C09", {"nfv": 1})
add("INTVECTOR.REMOVE", "C09", {"ni": 1, "niv": 1})
add("INTVECTOR.SET*INSERT", "C09", {"ni": 1, "niv": 1})
add("INTVECTOR.RAND", "C13", {"ni": 3}, top_int=[-1, 0, 1, 2])
add("FLOATVECTOR.RAND", "C13", {"ni": 1, "nf": 2}, top_int=[-1, 0, 1, 2])
add("FLOATVECTOR.*SCALAR", "C09", {"nf": 1, "nfv": 1}, None, "pre_fvec_short_mantissa")
add("FLOATVECTOR.SINE", "C09", {"ni": 1, "nf": 3}, top_int=[0, 1, 2, 3])

# ---- LIST (C19 / C20) -----------------------------------------------------------------------------
# LIST.NEIGHBOR*IDS: hand-written harnesses in c20_topology.rs (size and dimension operands concrete, index and
# radius symbolic); the generic harness with three symbolic operands does not finish.

# Item-touching instructions: outside every claim (clone / drop of Item, HashMap insert, fmt, process)
ITEM_TOUCHING_REASON = "clones/drops an Item, inserts into a HashMap, formats text or spawns a process: out of CBMC's reach (DESIGN.md section 2)"


def mangle(name):
    t = {".": "_", "+": "Plus", "-": "Minus", "*": "Star", "/": "Slash", "%": "Pct", "<": "Lt", ">": "Gt", "=": "Eq"}
    return "".join(t.get(c, c) for c in name)
