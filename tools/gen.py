#!/usr/bin/env python3
"""Generates the per-run harness crate: copies the hand-written harness sources, then emits
src/gen/*.rs from /repo's CURRENT sources (registry table -> one #[kani::proof] per obligation)
and a harnesses.json describing every generated/hand-written harness.

usage: gen.py <out_crate_dir> <tier> <seed>
"""
import itertools
import json
import os
import random
import re
import shutil
import sys

HERE = os.path.dirname(os.path.abspath(__file__))
VERIF = os.path.dirname(HERE)
sys.path.insert(0, HERE)
import catalog  # noqa: E402
import extract  # noqa: E402

BOUNDS = {
    "quick": {"STK_CAP": 4, "STK_SEQ": 5, "BUF_CAP": 3, "BUF_SEQ": 5, "VLEN": 2, "EXTRA": 1, "TOPO_N": 4, "TOPO_D": 3, "RUN_L": 1, "RUN_G": 2},
    "thorough": {"STK_CAP": 5, "STK_SEQ": 7, "BUF_CAP": 4, "BUF_SEQ": 7, "VLEN": 2, "EXTRA": 1, "TOPO_N": 6, "TOPO_D": 3, "RUN_L": 3, "RUN_G": 2},
}

LOADS = {
    "load_boolean_instructions": "pushr::push::boolean::load_boolean_instructions",
    "load_code_instructions": "pushr::push::code::load_code_instructions",
    "load_exec_instructions": "pushr::push::execution::load_exec_instructions",
    "load_float_instructions": "pushr::push::float::load_float_instructions",
    "load_index_instructions": "pushr::push::index::load_index_instructions",
    "load_int_instructions": "pushr::push::integer::load_int_instructions",
    "load_list_instructions": "pushr::push::list::load_list_instructions",
    "load_name_instructions": "pushr::push::name::load_name_instructions",
    "load_vector_instructions": "pushr::push::vector::load_vector_instructions",
    "load_io_instructions": "pushr::push::io::load_io_instructions",
    "load_graph_instructions": "pushr::push::graph::load_graph_instructions",
}

STUB_ATTRS = """#[kani::stub(std::hash::RandomState::new, crate::stubs::random_state_new)]
#[kani::stub(pushr::push::instructions::Instruction::new, crate::stubs::instruction_new)]
#[kani::stub(std::collections::HashMap::insert, crate::stubs::hashmap_insert)]
#[kani::stub(f32::tan, crate::stubs::f32_any)]
#[kani::stub(f32::powf, crate::gen::libm_table::powf_table)]"""


def spec_fns():
    text = open(os.path.join(VERIF, "harness", "src", "spec.rs")).read()
    names = set(re.findall(r"pub fn ([A-Za-z0-9_]+)\(b: &Snap\) -> Want", text))
    # functions produced by the manip_fns! / id_fn! / *_binop! macros
    for m in re.finditer(r"^([a-z_0-9]+)!\(([^;]*)\);", text, re.M):
        for tok in re.findall(r"\b([A-Z][A-Za-z0-9]*_[A-Za-z0-9_]+)\b", m.group(2)):
            names.add(tok)
    return {n for n in names if not n.endswith("_unused")}


def shapes_for(needs, tier, byst=0, vlen_enum=True):
    """Cartesian product of the operand stacks' depths (0..need+EXTRA) and, for vector stacks, of the
    lengths of the top `need` vectors (0..VLEN). Bystander stacks: depth 1 (vectors of length 1)."""
    b = BOUNDS[tier]
    extra, vlen = b["EXTRA"], b["VLEN"]
    base = dict(ni=byst, nf=byst, nb=byst, nn=byst, nc=byst, ne=byst, nx=byst, nbv=byst, niv=byst, nfv=byst, nin=byst, nout=byst)
    axes = []
    primary = max(needs.items(), key=lambda kv: (kv[1], kv[0]))[0] if needs else None
    for k, need in sorted(needs.items()):
        hi = need + (extra if k == primary else 0)
        if k in ("nbv", "niv", "nfv"):
            hi = min(hi, 3)
        if k in ("nin", "nout"):
            hi = min(hi, 2)
        if k in ("nc", "ne"):
            hi = min(hi, 3)
        if k == "nx":
            hi = min(hi, 2)
        axes.append([(k, d) for d in range(0, hi + 1)])
    out = []
    for combo in itertools.product(*axes) if axes else [()]:
        sh = dict(base)
        sh.update(dict(combo))
        # vector lengths: enumerate for the top `need` vectors of operand vector stacks
        vaxes = []
        for k in ("nbv", "niv", "nfv"):
            if k in needs and vlen_enum:
                depth = sh[k]
                nenum = min(depth, needs[k])
                vaxes.append([(k, lens) for lens in itertools.product(range(0, vlen + 1), repeat=nenum)])
        if "nin" in needs and sh["nin"] > 0:
            vaxes.append([("nin", lens) for lens in itertools.product(range(0, vlen + 1), repeat=min(sh["nin"], 1))])
        for vc in itertools.product(*vaxes) if vaxes else [()]:
            s2 = dict(sh)
            lens = {"nbv": [1, 1, 1], "niv": [1, 1, 1], "nfv": [1, 1, 1], "nin": [1, 1]}
            for k, ls in vc:
                depth = s2[k]
                # the enumerated lengths belong to the TOP vectors (last entries, bottom first)
                for j, l in enumerate(ls):
                    if k == "nin":
                        lens[k][j] = l  # oldest message first
                    else:
                        lens[k][depth - 1 - j] = l
            s2["lens"] = lens
            out.append(s2)
    return out


def full_shapes(needs, tier):
    """only the shapes in which every operand stack has at least its needed depth (the instruction fires)"""
    out = []
    for sh in shapes_for(needs, tier, 0, False):
        if all(sh[k] == needs[k] for k in needs):
            out.append(sh)
    return out or shapes_for(needs, tier, 0, False)[:1]


def shape_rs(sh):
    l = sh["lens"]
    return (
        "Shape {{ ni: {ni}, nf: {nf}, nb: {nb}, nn: {nn}, nc: {nc}, ne: {ne}, nx: {nx}, "
        "nbv: {nbv}, bvl: {bvl}, niv: {niv}, ivl: {ivl}, nfv: {nfv}, fvl: {fvl}, nin: {nin}, inl: {inl}, nout: {nout} }}"
    ).format(bvl=l["nbv"], ivl=l["niv"], fvl=l["nfv"], inl=l["nin"], **{k: v for k, v in sh.items() if k != "lens"})


def ident(name):
    return re.sub(r"[^A-Za-z0-9]", lambda m: "_%02x" % ord(m.group(0)), name).lower()


FN_HASHES = {}


def gen_instr(out_src, tier, harnesses, table, last):
    specs = spec_fns()
    mods = {}
    no_oracle = []
    not_item_free = []
    import hashlib
    for e in table:
        name = e["name"]
        if last[name] is not e:
            continue  # shadowed by a later insert of the same name
        src_txt = extract.fn_source(e["module"], e["func"].split("::")[-1]) or ""
        fn_hash = hashlib.sha1((e["func"] + "\n" + src_txt).encode()).hexdigest()[:16]
        FN_HASHES[name] = fn_hash
        # helper files an instruction depends on beyond its own body (change-aware quick selection)
        deps = []
        if name.endswith(".RAND") or name == "NAME.RANDBOUNDNAME":
            deps.append("random.rs")
        if name.split(".")[-1] in ("DUP", "POP", "SWAP", "ROT", "YANK", "SHOVE", "YANKDUP", "FLUSH", "STACKDEPTH") and name.split(".")[0] in ("BOOLEAN", "INTEGER", "FLOAT"):
            deps.append("stack.rs")
        if name.startswith("INPUT.") or name.startswith("OUTPUT."):
            deps.append("buffer.rs")
        for dep in deps:
            if "file::" + dep not in FN_HASHES:
                FN_HASHES["file::" + dep] = hashlib.sha1(open(os.path.join(extract.SRC, dep), "rb").read()).hexdigest()[:16]
        if name not in catalog.CAT:
            not_item_free.append(name)
            continue
        prop, needs, pre, sem_pre = catalog.CAT[name]
        opts = catalog.OPTS.get(name, {})
        ve = opts.get("vlen_enum", True)
        shapes_by_mode = {"NoPanic": shapes_for(needs, tier, 0, ve), "Sem": shapes_for(needs, tier, 0, ve), "Frame": shapes_for(needs, tier, 1, ve),
                          "Twice": full_shapes(needs, tier), "Cost": full_shapes(needs, tier)}
        sfn = catalog.mangle(name)
        has_spec = sfn in specs
        if not has_spec:
            no_oracle.append(name)
        pre_rs_np = "crate::instr::%s" % (pre or "pre_none")
        pre_rs_sem = "crate::instr::%s" % (sem_pre or pre or "pre_none")
        modes = [("c01", "NoPanic", "C01")]
        # determinism harness: not for RAND instructions, and not where CBMC's model of the operation is
        # itself a nondeterministic relation (transcendental functions, fmod): two runs may legally differ
        if prop != "C13" and name not in ("NAME.RAND", "NAME.RANDBOUNDNAME", "BOOLEAN.RAND", "FLOAT.SIN", "FLOAT.COS",
                                          "FLOAT.TAN", "FLOAT.EXP", "FLOAT.%", "FLOATVECTOR.SINE",
                                          # float division executed three times does not finish in the quick cap
                                          "FLOAT./", "FLOATVECTOR./"):
            modes.append(("c14", "Twice", "C14"))
        if ("ni" in needs or "nf" in needs) and not catalog.OPTS.get(name, {}).get("no_cost"):
            modes.append(("c15", "Cost", "C15"))
        if has_spec:
            modes.append((prop.lower(), "Sem", prop))
            if prop != "C10":
                modes.append(("c10", "Frame", "C10"))
        for tag, mode, pid in modes:
            if mode == "Sem" and pid == "C10":
                mode_rs = "Frame"
            else:
                mode_rs = mode
            shapes = shapes_by_mode[mode_rs]
            pre_rs = pre_rs_np if mode_rs == "NoPanic" else pre_rs_sem
            if mode_rs == "Cost":
                pre_rs = "crate::instr::pre_none"
            if mode_rs == "Twice":
                pre_rs = pre_rs_sem
            spec_rs = "Some(crate::spec::%s as SpecFn)" % sfn if mode_rs in ("Sem", "Frame") else "None"
            # one run = (shape, optional concrete index); chunk the runs so that a harness stays small
            runs = []
            for sh in shapes:
                if opts.get("top_int") and sh["ni"] >= 1 and mode_rs != "Cost":
                    for ix in opts["top_int"]:
                        runs.append((sh, ix))
                elif opts.get("idx_enum") and sh["ni"] >= 1:
                    depth = max(sh[k] for k in needs if k != "ni")
                    big = 100000 if mode_rs == "Cost" else 2147483647
                    idxs = sorted({-big - (0 if mode_rs == "Cost" else 1), -1, 0, 1, depth - 1, depth, big}) if depth > 0 else [0, big]
                    for ix in idxs:
                        runs.append((sh, ix))
                else:
                    runs.append((sh, None))
            nvec = sum(needs.get(k, 0) for k in ("nbv", "niv", "nfv"))
            chunk = 8 if nvec == 0 else (4 if nvec == 1 else 3)
            if name.startswith("OUTPUT.WRITE") or name.startswith("INPUT."):
                chunk = 3
            fheavy = name in ("FLOATVECTOR.*", "FLOATVECTOR./", "FLOATVECTOR.*SCALAR")
            if fheavy:
                chunk = 2  # float multiplier / divider circuits dominate the solver time
            heavy = name in ("CODE.SHOVE", "EXEC.SHOVE", "CODE.YANK", "EXEC.YANK")
            if heavy:
                chunk = 2  # Vec<Item>::insert/remove: memmove of 100-byte elements
            nchunks = (len(runs) + chunk - 1) // chunk
            for ci in range(nchunks):
                part = runs[ci * chunk:(ci + 1) * chunk]
                hname = "%s_%s" % (tag, ident(name)) + ("" if nchunks == 1 else "_p%d" % ci)
                body = []
                body.append("#[kani::proof]")
                body.append("#[kani::unwind(%d)]" % 10)
                body.append(STUB_ATTRS)
                body.append("pub fn %s() {" % hname)
                body.append("    let mut ins = crate::stubs::fetch(%s, %d, %s);" % (LOADS[e["load"]], e["ord"], json.dumps(name)))
                for sh, ix in part:
                    if ix is None:
                        body.append("    run_shape(&mut ins, &%s, %s, Mode::%s, %s);" % (shape_rs(sh), spec_rs, mode_rs, pre_rs))
                    else:
                        body.append("    run_shape_idx(&mut ins, &%s, %s, Mode::%s, %s, %d);" % (shape_rs(sh), spec_rs, mode_rs, pre_rs, ix))
                body.append('    kani::cover!(true, "reached end");')
                body.append("    std::mem::forget(ins);")
                body.append("}")
                mods.setdefault(tag, []).append("\n".join(body))
                harnesses.append(
                    {
                        "harness": "gen::instr_%s::%s" % (tag, hname),
                        "property": pid,
                        "kind": {"NoPanic": "no-panic", "Sem": "semantics", "Frame": "frame", "Twice": "determinism", "Cost": "cost"}[mode_rs],
                        "instruction": name,
                        "function": e["func"],
                        "fn_hash": fn_hash,
                        "dep_hashes": {d: FN_HASHES["file::" + d] for d in deps},
                        "module": e["module"],
                        "shapes": len(part),
                        "cost": round(len(part) * (6 if nvec == 0 else (14 if nvec == 1 else 28)) * {"NoPanic": 0.8, "Sem": 1.0, "Frame": 1.6, "Twice": 2.0, "Cost": 1.0}[mode_rs] * (6 if heavy else (6 if fheavy else 1)) + 8, 1),
                        "pre": pre if mode_rs == "NoPanic" else (sem_pre or pre),
                        "index_operand": "concrete set" if opts.get("idx_enum") else "any i32",
                        "sample": {"instruction": name, "shape": {k: v for k, v in part[len(part) // 2][0].items()}, "index": part[len(part) // 2][1]},
                    }
                )
    for tag, items in mods.items():
        with open(os.path.join(out_src, "gen", "instr_%s.rs" % tag), "w") as f:
            f.write("// GENERATED by tools/gen.py from /repo's current registry. Do not edit.\n")
            f.write("use crate::instr::{run_shape, run_shape_idx, Mode, SpecFn};\nuse crate::state::Shape;\n\n")
            f.write("\n\n".join(items))
            f.write("\n")
    return sorted(mods.keys()), no_oracle, not_item_free


OPS16 = ["push", "pop", "push_front", "pop_front", "yank", "shove", "remove", "replace", "copy", "get"]


def gen_c16_seq(out_src, tier, seed, harnesses):
    b = BOUNDS[tier]
    k, cap = b["STK_SEQ"], b["STK_CAP"]
    rnd = random.Random(seed * 7919 + 16)
    nseq = 6 if tier == "quick" else 16
    out = ["// GENERATED: operation-kind sequences drawn from VERIF_SEED; values and positions symbolic.",
           "use crate::c16_stack::*;", "use pushr::push::stack::PushStack;", ""]
    for si in range(nseq):
        ops = []
        ln = 0
        for _ in range(k):
            cand = list(OPS16)
            if ln >= cap:
                cand = [o for o in cand if o not in ("push", "push_front")]
            op = rnd.choice(cand)
            if len(ops) < 2:
                op = rnd.choice(["push", "push_front"])  # start from a non-empty stack
            ops.append(op)
            if op in ("push", "push_front"):
                ln += 1
            elif op in ("pop", "pop_front") and ln > 0:
                ln -= 1
            elif op == "remove":
                pass  # decided below by in_range flag
        name = "c16_seq_%d" % si
        lines = ["#[kani::proof]", "#[kani::unwind(10)]", "pub fn %s() {" % name,
                 "    let mut s: PushStack<i32> = PushStack::from_vec(Vec::with_capacity(MCAP + 1));",
                 "    let mut m = M { a: [0; MCAP], len: 0 };"]
        ln = 0
        for op in ops:
            if op in ("remove", "yank", "shove"):
                pos = rnd.randint(0, ln + 1)
                lines.append("    seq_%s(&mut s, &mut m, %d);" % (op, pos))
                if op == "remove" and pos < ln:
                    ln -= 1
            else:
                lines.append("    seq_%s(&mut s, &mut m);" % op)
                if op in ("push", "push_front"):
                    ln += 1
                elif op in ("pop", "pop_front") and ln > 0:
                    ln -= 1
        lines += ['    assert!(same(&s, &m), "contents differ from the sequence model after the sequence");',
                  '    kani::cover!(true, "reached end");', "    std::mem::forget(s);", "}"]
        out.append("\n".join(lines))
        harnesses.append({"harness": "gen::c16_seq::%s" % name, "property": "C16", "kind": "sequence",
                          "sample": {"ops": ops}})
    open(os.path.join(out_src, "gen", "c16_seq.rs"), "w").write("\n\n".join(out) + "\n")


def gen_registry(out_src, table, last):
    """fetch_<NAME>() for hand-written harnesses: ordinal and load function come from the current source."""
    out = ["// GENERATED from /repo's current registry.", "use pushr::push::instructions::Instruction;", ""]
    for e in table:
        if last[e["name"]] is not e:
            continue
        out.append("pub fn fetch_%s() -> Instruction {\n    crate::stubs::fetch(%s, %d, %s)\n}" % (catalog.mangle(e["name"]), LOADS[e["load"]], e["ord"], json.dumps(e["name"])))
    open(os.path.join(out_src, "gen", "registry.rs"), "w").write("\n".join(out) + "\n")


def gen_libm_table(out, out_src, tier):
    """Compile tools/libm_table.rs natively and run it: the table is the REAL libm of this machine."""
    import subprocess
    b = BOUNDS[tier]
    exe = os.path.join(out, "libm_table.bin")
    subprocess.run(["rustc", "-O", "-o", exe, os.path.join(HERE, "libm_table.rs")], check=True, capture_output=True)
    txt = subprocess.run([exe, str(b["TOPO_N"]), str(max(b["TOPO_D"], 4)), str(b["TOPO_N"])], check=True, capture_output=True, text=True).stdout
    os.remove(exe)
    open(os.path.join(out_src, "gen", "libm_table.rs"), "w").write(txt)


def gen_c20(out_src, tier, harnesses):
    b = BOUNDS[tier]
    out = ["// GENERATED: one neighbourhood harness per (ntotal, ndim, centre); radius is any f32.",
           "use crate::c20_topology::check_neighbors;", ""]
    for n in range(1, b["TOPO_N"] + 1):
        for d in range(1, b["TOPO_D"] + 1):
            for i in range(n):
                name = "c20_nb_n%d_d%d_i%d" % (n, d, i)
                out.append("#[kani::proof]\n#[kani::unwind(%d)]\n#[kani::stub(f32::powf, crate::gen::libm_table::powf_table)]\npub fn %s() {\n    check_neighbors(%d, %d, %d);\n    kani::cover!(true, \"reached end\");\n}\n" % (n + 3, name, n, d, i))
                harnesses.append({"harness": "gen::c20_gen::%s" % name, "property": "C20", "kind": "neighbourhood", "module": "d%d" % d,
                                  "cost": {1: 5, 2: 8, 3: 25, 4: 80}.get(n, 400),
                                  "sample": {"ntotal": n, "ndim": d, "centre": i, "radius": "any f32"}})
    open(os.path.join(out_src, "gen", "c20_gen.rs"), "w").write("\n".join(out))


def scan_handwritten(out_src, harnesses):
    for fn in sorted(os.listdir(out_src)):
        if not re.match(r"c\d\d_.*\.rs$", fn):
            continue
        mod = fn[:-3]
        text = open(os.path.join(out_src, fn)).read()
        pid = "C" + mod[1:3]
        names = re.findall(r"pub fn (c\d\d_[a-z0-9_]+)\(\)", text)
        # macro-generated: h!(name, ...) / hn!(name, ...)
        names += re.findall(r"^\s*[a-z_0-9]+!\(\s*(c\d\d_[a-z0-9_]+)\s*,", text, re.M)
        seen = set()
        for n in names:
            if n in seen:
                continue
            seen.add(n)
            h = {"harness": "%s::%s" % (mod, n), "property": pid, "kind": "unit", "sample": {"harness": n}}
            if n.startswith("c02_run_accounting") or "code_rand_bound" in n or "code_rand_size_bounded" in n:
                h["replay"] = "solver-only"
            harnesses.append(h)


def main():
    out, tier, seed = sys.argv[1], sys.argv[2], int(sys.argv[3])
    src_in = os.path.join(VERIF, "harness", "src")
    out_src = os.path.join(out, "src")
    if os.path.isdir(out_src):
        shutil.rmtree(out_src)
    shutil.copytree(src_in, out_src, ignore=shutil.ignore_patterns("gen"))
    os.makedirs(os.path.join(out_src, "gen"), exist_ok=True)
    cargo = open(os.path.join(VERIF, "harness", "Cargo.toml")).read()
    cargo = cargo.replace('"../shims/', '"%s/shims/' % VERIF)
    cargo = cargo.replace('path = "/repo"', 'path = "%s"' % extract.REPO)
    open(os.path.join(out, "Cargo.toml"), "w").write(cargo)
    lock = os.path.join(VERIF, "harness", "Cargo.lock")
    if os.path.exists(lock):
        shutil.copy(lock, os.path.join(out, "Cargo.lock"))

    harnesses = []
    try:
        table, last = extract.registry()
    except extract.ExtractError as e:
        print("EXTRACT-ERROR: %s" % e)
        sys.exit(2)
    b = BOUNDS[tier]
    with open(os.path.join(out_src, "gen", "bounds.rs"), "w") as f:
        for k, v in b.items():
            f.write("pub const %s: usize = %d;\n" % (k, v))
    tags, no_oracle, not_item_free = gen_instr(out_src, tier, harnesses, table, last)
    gen_c16_seq(out_src, tier, seed, harnesses)
    gen_libm_table(out, out_src, tier)
    gen_registry(out_src, table, last)
    gen_c20(out_src, tier, harnesses)
    scan_handwritten(out_src, harnesses)
    with open(os.path.join(out_src, "gen", "mod.rs"), "w") as f:
        f.write("pub mod bounds;\npub mod c16_seq;\npub mod libm_table;\npub mod c20_gen;\npub mod registry;\n")
        for t in tags:
            f.write("pub mod instr_%s;\n" % t)
    # measured wall times (quick bounds) replace the static cost estimate where available
    dpath = os.path.join(HERE, "durations.json")
    if tier == "quick" and os.path.exists(dpath):
        dur = json.load(open(dpath))
        for h in harnesses:
            if h["harness"] in dur:
                h["cost"] = dur[h["harness"]]
                h["cost_source"] = "measured"
    if os.environ.get("VERIF_WRITE_BASELINE"):
        json.dump(FN_HASHES, open(os.path.join(HERE, "baseline_fn_hashes.json"), "w"), indent=0, sort_keys=True)
    meta = {
        "tier": tier,
        "seed": seed,
        "bounds": b,
        "registry_entries": len(table),
        "registry_names": len(last),
        "no_oracle": no_oracle,
        "outside_item_free_set": not_item_free,
        "harnesses": harnesses,
    }
    json.dump(meta, open(os.path.join(out, "harnesses.json"), "w"), indent=1)
    print("generated %d harnesses (%d registry entries) into %s" % (len(harnesses), len(table), out))


if __name__ == "__main__":
    main()
