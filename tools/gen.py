#!/usr/bin/env python3
"""Generates the per-run harness crate: copies the hand-written harness sources, then emits
src/gen/*.rs from /repo's CURRENT sources (registry table -> one #[kani::proof] per obligation)
and a harnesses.json describing every generated/hand-written harness.

usage: gen.py <out_crate_dir> <tier> <seed>
"""
import itertools
import json
import os
import random
import re
import shutil
import sys

HERE = os.path.dirname(os.path.abspath(__file__))
VERIF = os.path.dirname(HERE)
sys.path.insert(0, HERE)
import catalog  # noqa: E402
import extract  # noqa: E402

BOUNDS = {
    "quick": {"STK_CAP": 4, "STK_SEQ": 5, "BUF_CAP": 3, "BUF_SEQ": 5, "VLEN": 2, "EXTRA": 1},
    "thorough": {"STK_CAP": 5, "STK_SEQ": 7, "BUF_CAP": 4, "BUF_SEQ": 7, "VLEN": 3, "EXTRA": 2},
}

LOADS = {
    "load_boolean_instructions": "pushr::push::boolean::load_boolean_instructions",
    "load_code_instructions": "pushr::push::code::load_code_instructions",
    "load_exec_instructions": "pushr::push::execution::load_exec_instructions",
    "load_float_instructions": "pushr::push::float::load_float_instructions",
    "load_index_instructions": "pushr::push::index::load_index_instructions",
    "load_int_instructions": "pushr::push::integer::load_int_instructions",
    "load_list_instructions": "pushr::push::list::load_list_instructions",
    "load_name_instructions": "pushr::push::name::load_name_instructions",
    "load_vector_instructions": "pushr::push::vector::load_vector_instructions",
    "load_io_instructions": "pushr::push::io::load_io_instructions",
    "load_graph_instructions": "pushr::push::graph::load_graph_instructions",
}

STUB_ATTRS = """#[kani::stub(std::hash::RandomState::new, crate::stubs::random_state_new)]
#[kani::stub(pushr::push::instructions::Instruction::new, crate::stubs::instruction_new)]
#[kani::stub(std::collections::HashMap::insert, crate::stubs::hashmap_insert)]"""


def spec_fns():
    text = open(os.path.join(VERIF, "harness", "src", "spec.rs")).read()
    names = set(re.findall(r"pub fn ([A-Za-z0-9_]+)\(b: &Snap\) -> Want", text))
    # functions produced by the manip_fns! / id_fn! / *_binop! macros
    for m in re.finditer(r"^(manip_fns|id_fn|bool_binop|int_binop|int_divop|int_cmp|flt_binop|flt_minmax|flt_cmp|flt_transc|vec_\w+)!\(([^;]*)\);", text, re.M):
        for tok in re.findall(r"\b([A-Z][A-Za-z0-9]*_[A-Za-z0-9_]+)\b", m.group(2)):
            names.add(tok)
    return {n for n in names if not n.endswith("_unused")}


def shapes_for(needs, tier, byst=0):
    """Cartesian product of the operand stacks' depths (0..need+EXTRA) and, for vector stacks, of the
    lengths of the top `need` vectors (0..VLEN). Bystander stacks: depth 1 (vectors of length 1)."""
    b = BOUNDS[tier]
    extra, vlen = b["EXTRA"], b["VLEN"]
    base = dict(ni=byst, nf=byst, nb=byst, nn=byst, nc=byst, ne=byst, nx=byst, nbv=byst, niv=byst, nfv=byst, nin=byst, nout=byst)
    axes = []
    primary = max(needs.items(), key=lambda kv: (kv[1], kv[0]))[0] if needs else None
    for k, need in sorted(needs.items()):
        hi = need + (extra if k == primary else 0)
        if k in ("nbv", "niv", "nfv"):
            hi = min(hi, 3)
        if k in ("nin", "nout"):
            hi = min(hi, 2)
        if k in ("nc", "ne"):
            hi = min(hi, 3)
        if k == "nx":
            hi = min(hi, 2)
        axes.append([(k, d) for d in range(0, hi + 1)])
    out = []
    for combo in itertools.product(*axes) if axes else [()]:
        sh = dict(base)
        sh.update(dict(combo))
        # vector lengths: enumerate for the top `need` vectors of operand vector stacks
        vaxes = []
        for k in ("nbv", "niv", "nfv"):
            if k in needs:
                depth = sh[k]
                nenum = min(depth, needs[k])
                vaxes.append([(k, lens) for lens in itertools.product(range(0, vlen + 1), repeat=nenum)])
        if "nin" in needs and sh["nin"] > 0:
            vaxes.append([("nin", lens) for lens in itertools.product(range(0, vlen + 1), repeat=min(sh["nin"], 1))])
        for vc in itertools.product(*vaxes) if vaxes else [()]:
            s2 = dict(sh)
            lens = {"nbv": [1, 1, 1], "niv": [1, 1, 1], "nfv": [1, 1, 1], "nin": [1, 1]}
            for k, ls in vc:
                depth = s2[k]
                # the enumerated lengths belong to the TOP vectors (last entries, bottom first)
                for j, l in enumerate(ls):
                    if k == "nin":
                        lens[k][j] = l  # oldest message first
                    else:
                        lens[k][depth - 1 - j] = l
            s2["lens"] = lens
            out.append(s2)
    return out


def shape_rs(sh):
    l = sh["lens"]
    return (
        "Shape {{ ni: {ni}, nf: {nf}, nb: {nb}, nn: {nn}, nc: {nc}, ne: {ne}, nx: {nx}, "
        "nbv: {nbv}, bvl: {bvl}, niv: {niv}, ivl: {ivl}, nfv: {nfv}, fvl: {fvl}, nin: {nin}, inl: {inl}, nout: {nout} }}"
    ).format(bvl=l["nbv"], ivl=l["niv"], fvl=l["nfv"], inl=l["nin"], **{k: v for k, v in sh.items() if k != "lens"})


def ident(name):
    return re.sub(r"[^A-Za-z0-9]", lambda m: "_%02x" % ord(m.group(0)), name).lower()


def gen_instr(out_src, tier, harnesses, table, last):
    specs = spec_fns()
    mods = {}
    no_oracle = []
    not_item_free = []
    for e in table:
        name = e["name"]
        if last[name] is not e:
            continue  # shadowed by a later insert of the same name
        if name not in catalog.CAT:
            not_item_free.append(name)
            continue
        prop, needs, pre = catalog.CAT[name]
        shapes_by_mode = {"NoPanic": shapes_for(needs, tier, 0), "Sem": shapes_for(needs, tier, 0), "Frame": shapes_for(needs, tier, 1)}
        sfn = catalog.mangle(name)
        has_spec = sfn in specs
        if not has_spec:
            no_oracle.append(name)
        pre_rs = "crate::instr::%s" % (pre or "pre_none")
        modes = [("c01", "NoPanic", "C01")]
        if has_spec:
            modes.append((prop.lower(), "Sem", prop))
            if prop != "C10":
                modes.append(("c10", "Frame", "C10"))
        for tag, mode, pid in modes:
            hname = "%s_%s" % (tag, ident(name))
            if mode == "Sem" and pid == "C10":
                mode_rs = "Frame"
            else:
                mode_rs = mode
            body = []
            body.append("#[kani::proof]")
            body.append("#[kani::unwind(%d)]" % 10)
            body.append(STUB_ATTRS)
            body.append("pub fn %s() {" % hname)
            body.append("    let mut ins = crate::stubs::fetch(%s, %d, %s);" % (LOADS[e["load"]], e["ord"], json.dumps(name)))
            spec_rs = "Some(crate::spec::%s as SpecFn)" % sfn if mode != "NoPanic" else "None"
            shapes = shapes_by_mode[mode_rs]
            for sh in shapes:
                body.append("    run_shape(&mut ins, &%s, %s, Mode::%s, %s);" % (shape_rs(sh), spec_rs, mode_rs, pre_rs))
            body.append('    kani::cover!(true, "reached end");')
            body.append("    std::mem::forget(ins);")
            body.append("}")
            mods.setdefault(tag, []).append("\n".join(body))
            harnesses.append(
                {
                    "harness": "gen::instr_%s::%s" % (tag, hname),
                    "property": pid,
                    "kind": {"NoPanic": "no-panic", "Sem": "semantics", "Frame": "frame"}[mode_rs],
                    "instruction": name,
                    "function": e["func"],
                    "module": e["module"],
                    "shapes": len(shapes),
                    "pre": pre,
                    "sample": {"instruction": name, "shape": {k: v for k, v in shapes[len(shapes) // 2].items()}},
                }
            )
    for tag, items in mods.items():
        with open(os.path.join(out_src, "gen", "instr_%s.rs" % tag), "w") as f:
            f.write("// GENERATED by tools/gen.py from /repo's current registry. Do not edit.\n")
            f.write("use crate::instr::{run_shape, Mode, SpecFn};\nuse crate::state::Shape;\n\n")
            f.write("\n\n".join(items))
            f.write("\n")
    return sorted(mods.keys()), no_oracle, not_item_free


OPS16 = ["push", "pop", "push_front", "pop_front", "yank", "shove", "remove", "replace", "copy", "get"]


def gen_c16_seq(out_src, tier, seed, harnesses):
    b = BOUNDS[tier]
    k, cap = b["STK_SEQ"], b["STK_CAP"]
    rnd = random.Random(seed * 7919 + 16)
    nseq = 6 if tier == "quick" else 16
    out = ["// GENERATED: operation-kind sequences drawn from VERIF_SEED; values and positions symbolic.",
           "use crate::c16_stack::*;", "use pushr::push::stack::PushStack;", ""]
    for si in range(nseq):
        ops = []
        ln = 0
        for _ in range(k):
            cand = list(OPS16)
            if ln >= cap:
                cand = [o for o in cand if o not in ("push", "push_front")]
            op = rnd.choice(cand)
            ops.append(op)
            if op in ("push", "push_front"):
                ln += 1
            elif op in ("pop", "pop_front") and ln > 0:
                ln -= 1
            elif op == "remove":
                pass  # decided below by in_range flag
        name = "c16_seq_%d" % si
        lines = ["#[kani::proof]", "#[kani::unwind(10)]", "pub fn %s() {" % name,
                 "    let mut s: PushStack<i32> = PushStack::from_vec(Vec::with_capacity(MCAP + 1));",
                 "    let mut m = M { a: [0; MCAP], len: 0 };"]
        for op in ops:
            if op == "remove":
                inr = rnd.random() < 0.7
                lines.append("    seq_remove(&mut s, &mut m, %s);" % ("true" if inr else "false"))
            else:
                lines.append("    seq_%s(&mut s, &mut m);" % op)
        lines += ['    assert!(same(&s, &m), "contents differ from the sequence model after the sequence");',
                  '    kani::cover!(true, "reached end");', "    std::mem::forget(s);", "}"]
        out.append("\n".join(lines))
        harnesses.append({"harness": "gen::c16_seq::%s" % name, "property": "C16", "kind": "sequence",
                          "sample": {"ops": ops}})
    open(os.path.join(out_src, "gen", "c16_seq.rs"), "w").write("\n\n".join(out) + "\n")


def scan_handwritten(out_src, harnesses):
    for fn in sorted(os.listdir(out_src)):
        if not re.match(r"c\d\d_.*\.rs$", fn):
            continue
        mod = fn[:-3]
        text = open(os.path.join(out_src, fn)).read()
        pid = "C" + mod[1:3]
        names = re.findall(r"pub fn (c\d\d_[a-z0-9_]+)\(\)", text)
        # macro-generated: h!(name, ...) / hn!(name, ...)
        names += re.findall(r"^\s*h[a-z0-9]*!\(\s*(c\d\d_[a-z0-9_]+)\s*,", text, re.M)
        seen = set()
        for n in names:
            if n in seen:
                continue
            seen.add(n)
            harnesses.append({"harness": "%s::%s" % (mod, n), "property": pid, "kind": "unit", "sample": {"harness": n}})


def main():
    out, tier, seed = sys.argv[1], sys.argv[2], int(sys.argv[3])
    src_in = os.path.join(VERIF, "harness", "src")
    out_src = os.path.join(out, "src")
    if os.path.isdir(out_src):
        shutil.rmtree(out_src)
    shutil.copytree(src_in, out_src, ignore=shutil.ignore_patterns("gen"))
    os.makedirs(os.path.join(out_src, "gen"), exist_ok=True)
    cargo = open(os.path.join(VERIF, "harness", "Cargo.toml")).read()
    cargo = cargo.replace('"../shims/', '"%s/shims/' % VERIF)
    cargo = cargo.replace('path = "/repo"', 'path = "%s"' % extract.REPO)
    open(os.path.join(out, "Cargo.toml"), "w").write(cargo)
    lock = os.path.join(VERIF, "harness", "Cargo.lock")
    if os.path.exists(lock):
        shutil.copy(lock, os.path.join(out, "Cargo.lock"))

    harnesses = []
    try:
        table, last = extract.registry()
    except extract.ExtractError as e:
        print("EXTRACT-ERROR: %s" % e)
        sys.exit(2)
    b = BOUNDS[tier]
    with open(os.path.join(out_src, "gen", "bounds.rs"), "w") as f:
        for k, v in b.items():
            f.write("pub const %s: usize = %d;\n" % (k, v))
    tags, no_oracle, not_item_free = gen_instr(out_src, tier, harnesses, table, last)
    gen_c16_seq(out_src, tier, seed, harnesses)
    scan_handwritten(out_src, harnesses)
    with open(os.path.join(out_src, "gen", "mod.rs"), "w") as f:
        f.write("pub mod bounds;\npub mod c16_seq;\n")
        for t in tags:
            f.write("pub mod instr_%s;\n" % t)
    meta = {
        "tier": tier,
        "seed": seed,
        "bounds": b,
        "registry_entries": len(table),
        "registry_names": len(last),
        "no_oracle": no_oracle,
        "outside_item_free_set": not_item_free,
        "harnesses": harnesses,
    }
    json.dump(meta, open(os.path.join(out, "harnesses.json"), "w"), indent=1)
    print("generated %d harnesses (%d registry entries) into %s" % (len(harnesses), len(table), out))


if __name__ == "__main__":
    main()
