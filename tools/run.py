#!/usr/bin/env python3
"""Orchestrates one check: regenerate harnesses from /repo's current tree, run Kani/CBMC on the
selected harnesses, classify every failed check, replay counterexamples natively, write evidence.

exit 0: property held on everything explored (KNOWN-FINDING lines may be printed)
exit 1: a replayed violation not listed in known_findings.json  (VIOLATION property=<id> replay=<path>)
exit 2: inconclusive (timeout / OOM / tool error / vacuous harness / counterexample that does not replay)
"""
import argparse
import hashlib
import json
import os
import random
import re
import shutil
import subprocess
import sys
import time

HERE = os.path.dirname(os.path.abspath(__file__))
VERIF = os.path.dirname(HERE)
WORK = os.path.join(VERIF, ".work")
sys.path.insert(0, HERE)

KANI_FLAGS = [
    "-Z", "unstable-options", "-Z", "stubbing", "-Z", "restrict-vtable",
    "--no-assertion-reach-checks", "--no-memory-safety-checks", "--no-overflow-checks",
]

# quick tier: number of harnesses per property (stratified sample chosen with VERIF_SEED)
QUICK_N = {"C01": 20, "C04": 12, "C05": 12, "C08": 6, "C09": 12, "C10": 16, "C12": 8, "C13": 10, "C14": 8,
           "C15": 12, "C16": 40, "C17": 40, "C19": 6, "C20": 30, "C02": 6}
TIMEOUT = {"quick": int(os.environ.get("VERIF_QUICK_CAP", "300")), "thorough": 900}
NATIVE_TIMEOUT = 300

ENV = dict(os.environ)
ENV["CARGO_NET_OFFLINE"] = "true"
ENV.setdefault("CARGO_TERM_COLOR", "never")


def sh(cmd, cwd=None, timeout=None, log=None):
    t0 = time.time()
    p = subprocess.run(cmd, cwd=cwd, env=ENV, stdout=subprocess.PIPE, stderr=subprocess.STDOUT, timeout=timeout, text=True)
    if log:
        with open(log, "a") as f:
            f.write("$ %s\n" % " ".join(cmd))
            f.write(p.stdout)
            f.write("\n[exit %d, %.1fs]\n" % (p.returncode, time.time() - t0))
    return p.returncode, p.stdout


def load_known():
    p = os.path.join(VERIF, "known_findings.json")
    if not os.path.exists(p):
        return {"findings": [], "fixed": []}
    return json.load(open(p))


def match_known(known, prop, h, chk):
    """A failed check is a known finding when property, instruction (or harness role) and the failure
    class (check description substring + failing function substring) all match a recorded entry."""
    for k in known.get("findings", []):
        if k["property"] != prop:
            continue
        if "instruction" in k and k["instruction"] != h.get("instruction"):
            continue
        if "harness" in k and not h["harness"].endswith(k["harness"]):
            continue
        if k.get("check") and k["check"] not in chk["description"] and k["check"] not in (chk.get("function") or ""):
            continue
        if k.get("checks") and not any(c in chk["description"] for c in k["checks"]):
            continue
        if k.get("function") and k["function"] not in (chk.get("function") or ""):
            continue
        return k
    return None


# quick tier: CPU budget in estimated core-seconds (gen.py attaches a static cost estimate to every generated
# harness; hand-written ones default to 30) - the sample is stratified by (module, kind) and chosen with VERIF_SEED
QUICK_BUDGET = {"C01": 1500, "C04": 1500, "C05": 1500, "C09": 1200, "C10": 1300, "C12": 2000, "C13": 2000, "C14": 1500,
                "C15": 1500, "C16": 3000, "C17": 2500, "C20": 900, "C02": 3000}
# measured on this machine under 14-way contention; the reference environment was up to ~2x slower
QUICK_MAX_COST = 75


def select(meta, prop, tier, seed, known):
    hs = [h for h in meta["harnesses"] if h["property"] == prop]
    if tier == "thorough" or os.environ.get("VERIF_ALL"):
        return hs, len(hs)
    rnd = random.Random(seed * 1000003 + int(prop[1:]))
    budget = QUICK_BUDGET.get(prop, 1500)
    cost = lambda h: h.get("cost", 30)
    # the small hand-written families run with little contention and were stable in three reference runs
    max_cost = 130 if prop in ("C02", "C12", "C13", "C16", "C17") else QUICK_MAX_COST
    strata = {}
    for h in hs:
        if cost(h) > max_cost:
            continue
        strata.setdefault((h.get("module", ""), h.get("kind", "")), []).append(h)
    for v in strata.values():
        rnd.shuffle(v)
    keys = sorted(strata.keys())
    rnd.shuffle(keys)
    picked, total = [], 0.0
    # change-aware: harnesses of instructions whose function body or registry binding differs from the
    # recorded baseline (tools/baseline_fn_hashes.json, written from the repaired tree) are decided first,
    # whatever their cost - the quick tier is the check run on every change
    bpath = os.path.join(HERE, "baseline_fn_hashes.json")
    if os.path.exists(bpath):
        base = json.load(open(bpath))
        for h in hs:
            changed = h.get("fn_hash") and base.get(h.get("instruction")) != h["fn_hash"]
            changed = changed or any(base.get("file::" + d) != v for d, v in (h.get("dep_hashes") or {}).items())
            if changed and len(picked) < 40:
                picked.append(h)
                total += cost(h)
    # harnesses attached to known findings next (they must keep printing KNOWN-FINDING)
    kf = [k for k in known.get("findings", []) if k["property"] == prop]
    for h in hs:
        for k in kf:
            if ("instruction" in k and k["instruction"] == h.get("instruction")) or ("harness" in k and h["harness"].endswith(k["harness"])):
                if h not in picked and cost(h) <= max_cost:
                    picked.append(h)
                    total += cost(h)
    i = 0
    misses = 0
    while any(strata.values()) and misses < 3 * len(keys):
        k = keys[i % len(keys)]
        i += 1
        if not strata[k]:
            misses += 1
            continue
        h = strata[k].pop()
        if h in picked:
            continue
        if total + cost(h) > budget:
            misses += 1
            continue
        picked.append(h)
        total += cost(h)
    return picked, len(hs)


def run_kani(crate, target, harness_names, jobs, timeout_s, log, out_json, extra=None):
    cmd = ["cargo", "kani", "--target-dir", target]
    for h in harness_names:
        cmd += ["--harness", h]
    cmd += ["--exact", "-j", str(jobs), "--output-format", "terse", "--export-json", out_json, "--harness-timeout", str(timeout_s)]
    cmd += KANI_FLAGS
    if extra:
        cmd += extra
    if os.path.exists(out_json):
        os.remove(out_json)
    rc, out = sh(cmd, cwd=crate, log=log)
    return rc, out


def parse_results(out_json):
    d = json.load(open(out_json))
    res = {}
    err = {e["harness_id"]: e for e in d.get("error_details", [])}
    stats = {e["harness_id"]: e.get("cbmc_stats") for e in d.get("cbmc", [])}
    for r in d["verification_results"]["results"]:
        hid = r["harness_id"]
        checks = r.get("checks", [])
        failed = [c for c in checks if c["status"] == "Failure"]
        covers = [c for c in checks if c.get("category") == "cover" or c["status"] in ("Satisfied", "Unsatisfiable", "Unreachable") and "cover" in (c.get("description") or "")]
        funcs = sorted({c.get("function") for c in checks if c.get("function")})
        res[hid] = {
            "status": r["status"],
            "duration_ms": r["duration_ms"],
            "failed": failed,
            "n_checks": len(checks),
            "covers": [(c["description"], c["status"]) for c in checks if c["status"] in ("Satisfied", "Unsatisfiable", "Unreachable", "Uncovered", "Covered")],
            "exit_status": err.get(hid, {}).get("exit_status"),
            "stats": stats.get(hid),
            "functions": funcs,
        }
    tools = d.get("tools", {})
    return res, tools


PLAYBACK_RE = re.compile(r"Concrete playback unit test for `([^`]+)`:\s*```\n(.*?)```", re.S)


def concrete_playback(crate, target, harness, log, timeout_s):
    """Ask Kani for concrete values of every failing check of one harness."""
    cmd = ["cargo", "kani", "--target-dir", target, "--harness", harness, "--exact", "--output-format", "terse",
           "-Z", "concrete-playback", "--concrete-playback=print", "--harness-timeout", str(timeout_s)] + KANI_FLAGS
    rc, out = sh(cmd, cwd=crate, log=log)
    tests = []
    for m in PLAYBACK_RE.finditer(out):
        body = m.group(2)
        chk = re.search(r'Check for `[^`]*`: "(.*)"', body)
        name = re.search(r"fn (kani_concrete_playback_\w+)\(", body)
        tests.append({"harness": m.group(1), "check": chk.group(1) if chk else "", "test_name": name.group(1) if name else "", "source": body})
    return tests


def native_replay(crate, harness, tests, log, profile_release=False):
    """Run the generated unit tests natively (`cargo kani playback`): real HashMap, real Instruction::new,
    no stubs; kani::any() reads the solver's values. Returns {test_name: reproduced(bool)}."""
    mod = harness.rsplit("::", 1)[0]
    src = os.path.join(crate, "src", "playback_tests.rs")
    with open(src, "w") as f:
        f.write("// GENERATED by run.py: concrete playback tests printed by Kani\n#![allow(unused_imports)]\nuse crate::%s::*;\n" % mod)
        for t in tests:
            f.write(t["source"] + "\n")
    lib = os.path.join(crate, "src", "lib.rs")
    text = open(lib).read()
    if "mod playback_tests;" not in text:
        open(lib, "a").write("\n#[cfg(kani)]\nmod playback_tests;\n")
    env_t = os.path.join(os.path.dirname(crate), "target_playback")
    ENV["CARGO_TARGET_DIR"] = env_t
    cmd = ["cargo", "kani", "playback", "-Z", "concrete-playback", "-Z", "stubbing"]
    rel_env = {}
    if profile_release:
        # `cargo kani playback` has no --release: give the dev/test profiles the release settings
        for prof in ("DEV", "TEST"):
            rel_env["CARGO_PROFILE_%s_OPT_LEVEL" % prof] = "3"
            rel_env["CARGO_PROFILE_%s_OVERFLOW_CHECKS" % prof] = "false"
            rel_env["CARGO_PROFILE_%s_DEBUG_ASSERTIONS" % prof] = "false"
        ENV["CARGO_TARGET_DIR"] = env_t + "_rel"
    ENV.update(rel_env)
    cmd += ["--", "--test-threads", "1", "playback_tests"]
    try:
        rc, out = sh(cmd, cwd=crate, log=log, timeout=NATIVE_TIMEOUT)
    except subprocess.TimeoutExpired:
        # the native run of the solver's input did not finish: for C15 that IS the reproduction
        ENV.pop("CARGO_TARGET_DIR", None)
        for k in rel_env:
            ENV.pop(k, None)
        subprocess.run("pkill -9 -f pushr_verif_harness- || true", shell=True)
        return {t["test_name"]: "timeout" for t in tests}, "native replay timed out after %ds" % NATIVE_TIMEOUT
    ENV.pop("CARGO_TARGET_DIR", None)
    for k in rel_env:
        ENV.pop(k, None)
    res = {}
    for t in tests:
        m = re.search(r"test .*%s \.\.\. (\w+)" % re.escape(t["test_name"]), out)
        if not m:
            res[t["test_name"]] = None
            continue
        if m.group(1) != "FAILED":
            res[t["test_name"]] = False
            continue
        # the native run panicked: it only counts as a reproduction when it is the SAME failure
        pm = re.search(r"thread '[^']*%s' \(\d+\) panicked at ([^\n]*):\n([^\n]*)" % re.escape(t["test_name"]), out)
        loc, msg = (pm.group(1), pm.group(2)) if pm else ("", "")
        want = t["check"].strip().strip('"')
        if want and want in msg:
            res[t["test_name"]] = True
        elif not t["check"].strip().startswith('"') and not loc.startswith("src/"):
            # a Rust-level panic (overflow, bounds, unwrap, division) inside pushr / std / the shims
            res[t["test_name"]] = True
        elif "unwinding assertion" in t["check"] and not loc.startswith("src/stubs.rs"):
            res[t["test_name"]] = True
        else:
            res[t["test_name"]] = False
        t["native_panic"] = "%s: %s" % (loc, msg)
    return res, out


def write_evidence(prop, tier, seed, cov, assumptions, wall, violations):
    os.makedirs(os.path.join(VERIF, "evidence"), exist_ok=True)
    ev = {
        "property_id": prop,
        "tier": tier,
        "seed": seed,
        "level": "model_checking",
        "coverage": cov,
        "assumptions": assumptions,
        "wall_s": round(wall, 1),
        "violations": violations,
    }
    p = os.path.join(VERIF, "evidence", "%s.json" % prop)
    json.dump(ev, open(p, "w"), indent=1)
    return p


ASSUMPTIONS = [
    "engine: Kani 0.68.0 / CBMC 6.11.0 / CaDiCaL on the goto program compiled from /repo's current working tree (path dependency, dev profile semantics, overflow checks on)",
    "bounded: every verdict holds for the stated shapes only (depths, vector lengths, capacities, sequence lengths); unwinding assertions are on",
    "CBMC's own pointer/NaN instrumentation is off (--no-memory-safety-checks --no-overflow-checks): pushr has no unsafe code; Rust-level panics (overflow, bounds, unwrap, division) remain as MIR assertions",
    "stubs: std::hash::RandomState::new (fixed keys), Instruction::new (closure wrapper, Kani ICE workaround), HashMap<String,Instruction>::insert (association-list model of the registry lookup)",
    "rand / rand_distr / names replaced by contract shims: every draw is kani::any() constrained by the documented range contract",
]


def cleanup(run_dir):
    """Build output is large (several GB per run) and never reused across source changes: remove it."""
    for d in ("target", "target_playback", "target_playback_rel"):
        shutil.rmtree(os.path.join(run_dir, d), ignore_errors=True)


def main():
    ap = argparse.ArgumentParser()
    ap.add_argument("prop")
    ap.add_argument("--tier", default=os.environ.get("VERIF_TIER", "quick"))
    ap.add_argument("--replay")
    ap.add_argument("--jobs", type=int, default=int(os.environ.get("VERIF_JOBS", "0")))
    ap.add_argument("--only", help="substring filter on harness names (development)")
    a = ap.parse_args()
    prop, tier = a.prop, a.tier
    if not a.jobs:
        # memory-bound harness families get fewer parallel CBMC processes (62 GB, no swap)
        a.jobs = {"C20": 6}.get(prop, 14)
    seed = int(os.environ.get("VERIF_SEED", "1"))
    t0 = time.time()
    run_dir = os.path.join(WORK, "run", "%s_%s" % (prop, tier))
    crate = os.path.join(run_dir, "crate")
    target = os.path.join(run_dir, "target")
    os.makedirs(run_dir, exist_ok=True)
    log = os.path.join(run_dir, "log.txt")
    open(log, "w").close()
    cleanup(run_dir)

    if a.replay:
        return replay_file(a.replay, prop, run_dir, crate, log, tier, seed)

    rc, out = sh([sys.executable, os.path.join(HERE, "gen.py"), crate, tier, str(seed)], log=log)
    if rc != 0:
        print(out)
        print("INCONCLUSIVE: harness generation failed (registry not in the expected form?)")
        return 2
    meta = json.load(open(os.path.join(crate, "harnesses.json")))
    known = load_known()
    picked, total = select(meta, prop, tier, seed, known)
    if a.only:
        pats = [x for x in a.only.split(",") if x]
        picked = [h for h in picked if any(x in h["harness"] for x in pats)]
    if not picked:
        print("INCONCLUSIVE: no harness for %s" % prop)
        return 2
    # tool sanity obligations accompany every check
    sanity = [h for h in meta["harnesses"] if h["property"] == "C00"]
    picked = picked + sanity
    byname = {h["harness"]: h for h in picked}
    out_json = os.path.join(run_dir, "kani.json")
    timeout_s = TIMEOUT[tier]
    rc, out = run_kani(crate, target, list(byname), a.jobs, timeout_s, log, out_json)
    if not os.path.exists(out_json):
        print(out[-3000:])
        print("INCONCLUSIVE: cargo kani produced no result file (compile error?)")
        return 2
    res, tools = parse_results(out_json)

    # A harness that hit the cap while 14 CBMC processes shared the machine is decided again with few
    # competitors and the thorough cap before it is called inconclusive (a slower host must not turn a
    # harness that is decidable into exit 2; a timeout is still never counted as a pass).
    retried = []
    if tier == "quick":
        slow = [hn for hn in byname if res.get(hn) and res[hn]["exit_status"] == "timeout"]
        if 0 < len(slow) <= 6:
            out_retry = os.path.join(run_dir, "kani_retry.json")
            run_kani(crate, target, slow, min(len(slow), 4), TIMEOUT["thorough"], log, out_retry)
            if os.path.exists(out_retry):
                again, _ = parse_results(out_retry)
                for hn in slow:
                    if again.get(hn):
                        res[hn] = again[hn]
                        retried.append(hn)
            if retried:
                print("RETRIED after quick-cap timeout (cap %ds, <=4 parallel): %s" % (TIMEOUT["thorough"], ", ".join(retried)))

    inconclusive, known_hits, candidates, passed, solver_only, unreplayed = [], [], [], [], [], []
    solver_s = symex_s = 0.0
    n_checks = 0
    functions = set()
    for hn, h in byname.items():
        r = res.get(hn)
        if r is None:
            inconclusive.append((hn, "no result reported"))
            continue
        n_checks += r["n_checks"]
        functions.update(f for f in r["functions"] if f and ("pushr::" in f))
        if r["stats"]:
            solver_s += r["stats"].get("runtime_decision_procedure_s") or 0
            symex_s += r["stats"].get("runtime_symex_s") or 0
        if r["exit_status"] in ("timeout", "out_of_memory") or (r["status"] != "Success" and not r["failed"]):
            inconclusive.append((hn, r["exit_status"] or "tool failure"))
            continue
        if h["property"] == "C00":
            if r["status"] != "Success":
                inconclusive.append((hn, "TOOL SANITY FAILED: %s" % "; ".join(c["description"] for c in r["failed"])))
            continue
        if r["status"] == "Success":
            bad_cov = [c for c in r["covers"] if c[1] not in ("Satisfied", "Covered")]
            oblig = [c for c in bad_cov if "OBLIGATION:" in c[0]]
            if oblig:
                # existential obligation (a witness must exist) proved unsatisfiable by the solver
                k = match_known(known, prop, h, {"description": oblig[0][0], "function": ""})
                if k:
                    known_hits.append((hn, {"description": oblig[0][0]}, k))
                    passed.append(hn)
                else:
                    solver_only.append((hn, oblig[0][0]))
            elif bad_cov:
                inconclusive.append((hn, "vacuous: cover %r not satisfiable" % (bad_cov[0][0],)))
            else:
                passed.append(hn)
            continue
        new = []
        for c in r["failed"]:
            if "unwinding assertion" in c["description"] and prop != "C15":
                new.append((c, "unwind"))
                continue
            k = match_known(known, prop, h, c)
            if k:
                known_hits.append((hn, c, k))
            else:
                new.append((c, "cex"))
        if any(kind == "unwind" for _, kind in new) and not any(kind == "cex" for _, kind in new):
            inconclusive.append((hn, "unwinding bound too small"))
        elif any(kind == "cex" for _, kind in new):
            candidates.append((hn, [c for c, kind in new if kind == "cex"]))
        else:
            passed.append(hn)

    # replay candidates natively before reporting
    violations = []
    replay_dir = os.path.join(WORK, "replay", prop)
    os.makedirs(replay_dir, exist_ok=True)
    MAX_REPLAY = 3
    attempts = 0
    to_replay = []   # (harness, checks, wanted tests)
    for hn, checks in candidates:
        if byname[hn].get("replay") == "solver-only":
            # the assertions of this harness are about a stand-in for pushr code (step / clock / generator
            # recorder): there is nothing to run natively. Cross-check the verdict with a second SAT back end.
            out2 = os.path.join(run_dir, "kani_second.json")
            run_kani(crate, target, [hn], 1, timeout_s, log, out2, extra=["--solver", "kissat"])
            again = {}
            if os.path.exists(out2):
                again, _ = parse_results(out2)
            r2 = again.get(hn)
            if r2 and r2["failed"]:
                for c in checks:
                    solver_only.append((hn, c["description"]))
            else:
                inconclusive.append((hn, "counterexample not confirmed by the second SAT back end"))
            continue
        if attempts >= MAX_REPLAY:
            unreplayed.append((hn, "; ".join(c["description"] for c in checks)))
            continue
        attempts += 1
        # producing the concrete trace is slower than the verdict itself: three times the cap
        tests = concrete_playback(crate, target, hn, log, 3 * timeout_s)
        wanted = [t for t in tests if any(c["description"].strip('"') in t["check"] or t["check"] in c["description"] for c in checks)]
        if not wanted:
            wanted = tests
        if not wanted:
            inconclusive.append((hn, "counterexample without concrete values"))
            continue
        to_replay.append((hn, checks, wanted))
    if to_replay:
        # one native build per profile for all generated tests (modules differ: group by module)
        bymod = {}
        for hn, checks, wanted in to_replay:
            bymod.setdefault(hn.rsplit("::", 1)[0], []).extend(wanted)
        rep_dev, rep_rel = {}, {}
        for mod, tests in bymod.items():
            d, _ = native_replay(crate, mod + "::x", tests, log, False)
            r, _ = native_replay(crate, mod + "::x", tests, log, True)
            rep_dev.update(d)
            rep_rel.update(r)
        for hn, checks, wanted in to_replay:
            any_rep = False
            for t in wanted:
                dev, rel = rep_dev.get(t["test_name"]), rep_rel.get(t["test_name"])
                if "timeout" in (dev, rel) and prop != "C15":
                    dev = None if dev == "timeout" else dev
                    rel = None if rel == "timeout" else rel
                if dev or rel:
                    any_rep = True
                    path = os.path.join(replay_dir, "%s__%s.json" % (hn.split("::")[-1], hashlib.sha1(t["check"].encode()).hexdigest()[:8]))
                    json.dump({"property": prop, "harness": hn, "instruction": byname[hn].get("instruction"), "check": t["check"],
                               "native_panic": t.get("native_panic"),
                               "reproduced": {"dev": dev, "release": rel}, "test_name": t["test_name"], "test_source": t["source"],
                               "tier": tier, "seed": seed}, open(path, "w"), indent=1)
                    violations.append((hn, t["check"], path, dev, rel))
            if not any_rep and prop == "C15" and all("unwinding assertion" in c["description"] for c in checks):
                # A loop that exceeds the bound only shows natively as time. Escalate the bound: if the loop
                # still does not terminate within 64 iterations on a state of <= 9 elements, its trip count is
                # driven by operand magnitude (solver-only verdict; replay re-runs the query).
                out3 = os.path.join(run_dir, "kani_unwind64.json")
                run_kani(crate, target, [hn], 1, timeout_s, log, out3, extra=["--unwind", "64"])
                again = {}
                if os.path.exists(out3):
                    again, _ = parse_results(out3)
                r3 = again.get(hn)
                if r3 and any("unwinding assertion" in c["description"] for c in r3["failed"]):
                    solver_only.append((hn, "a loop runs more than 64 iterations on a state of <= 9 elements (trip count set by operand magnitude): " + checks[0].get("function", "")))
                    any_rep = True
            if not any_rep:
                inconclusive.append((hn, "counterexample did not reproduce natively (encoding or stub suspect): %s" % "; ".join(c["description"] for c in checks)))
    if unreplayed and not violations:
        for hn, why in unreplayed:
            inconclusive.append((hn, "counterexample not replayed (replay limit): " + why))

    for hn, desc in solver_only:
        path = os.path.join(replay_dir, "%s__%s.json" % (hn.split("::")[-1], hashlib.sha1(desc.encode()).hexdigest()[:8]))
        json.dump({"property": prop, "harness": hn, "check": desc, "solver_only": True,
                   "note": "no native witness exists for this obligation (existential cover proved unsatisfiable, or an assertion about a "
                           "nondeterministic stand-in for step/clock/generator): replay re-runs the solver query",
                   "tier": tier, "seed": seed}, open(path, "w"), indent=1)
        violations.append((hn, desc, path, "solver-only", "solver-only"))

    wall = time.time() - t0
    samples = []
    for hn in (passed[:3] + [k[0] for k in known_hits[:2]]):
        h = byname[hn]
        r = res[hn]
        samples.append({"harness": hn, "description": h.get("sample"), "verdict": r["status"], "checks": r["n_checks"], "solver_s": (r["stats"] or {}).get("runtime_decision_procedure_s")})
    cov = {
        "evaluations": len(picked) - len(sanity),
        "distinct_nontrivial": len(set(passed) | {k[0] for k in known_hits} | {v[0] for v in violations}),
        "rule": "one evaluation = one #[kani::proof] harness decided by CBMC over all symbolic contents of its concrete shapes; counted as distinct+non-trivial when it returned a verdict (UNSAT with its reachability cover satisfied, or a counterexample) - timeouts, vacuous and errored harnesses are not counted",
        "samples": samples or [{"harness": picked[0]["harness"], "description": picked[0].get("sample")}],
        "obligations": len(picked) - len(sanity),
        "discharged": len(passed),
        "harnesses_available": total,
        "harnesses_selected": len(picked),
        "solver_checks_total": n_checks,
        "solver_time_s": round(solver_s, 2),
        "symex_time_s": round(symex_s, 2),
        "bounds": meta["bounds"],
        "functions_encoded": sorted(functions)[:400],
        "no_oracle": meta.get("no_oracle"),
        "outside_item_free_set": meta.get("outside_item_free_set"),
        "inconclusive": [{"harness": h, "why": w} for h, w in inconclusive],
        "retried_after_quick_cap": retried,
        "known_findings_hit": sorted({"%s: %s" % (k["id"], c["description"]) for _, c, k in known_hits}),
        "violations": [{"harness": v[0], "check": v[1], "replay": v[2], "dev": v[3], "release": v[4]} for v in violations],
        "counterexamples_not_replayed": [{"harness": h, "checks": w} for h, w in unreplayed],
        "tools": tools,
        "registry_entries": meta["registry_entries"],
        "exhaustive": False,
    }
    write_evidence(prop, tier, seed, cov, ASSUMPTIONS, wall, len(violations))

    seen = set()
    for hn, c, k in known_hits:
        if k["id"] in seen:
            continue
        seen.add(k["id"])
        print("KNOWN-FINDING: property=%s %s [%s]" % (prop, k["what"], k["id"]))
    for hn, chk, path, dev, rel in violations:
        print("VIOLATION property=%s replay=%s" % (prop, path))
        print("  harness=%s check=%s reproduced(dev=%s, release=%s)" % (hn, chk, dev, rel))
    for hn, why in inconclusive:
        print("INCONCLUSIVE: %s: %s" % (hn, why))
    print("%s %s: %d harnesses, %d passed, %d known-finding checks, %d violations, %d inconclusive, %.0fs (solver %.1fs)" % (
        prop, tier, len(picked), len(passed), len(known_hits), len(violations), len(inconclusive), wall, solver_s))
    if not os.environ.get("VERIF_KEEP_TARGET"):
        cleanup(run_dir)
    if violations:
        return 1
    if inconclusive:
        return 2
    return 0


def replay_file(path, prop, run_dir, crate, log, tier, seed):
    rp = json.load(open(path))
    if rp.get("solver_only"):
        rc, out = sh([sys.executable, os.path.join(HERE, "gen.py"), crate, rp.get("tier", tier), str(rp.get("seed", seed))], log=log)
        out_json = os.path.join(run_dir, "kani_replay.json")
        run_kani(crate, os.path.join(run_dir, "target"), [rp["harness"]], 1, TIMEOUT[tier], log, out_json)
        res, _ = parse_results(out_json)
        r = res.get(rp["harness"])
        bad = r and ([c for c in r["covers"] if "OBLIGATION:" in c[0] and c[1] not in ("Satisfied", "Covered")] or r["failed"])
        print("replay %s: %s" % (rp["harness"], "still violated" if bad else "holds"))
        if bad:
            print("VIOLATION property=%s replay=%s" % (prop, path))
            return 1
        return 0
    rc, out = sh([sys.executable, os.path.join(HERE, "gen.py"), crate, rp.get("tier", tier), str(rp.get("seed", seed))], log=log)
    if rc != 0:
        print(out)
        return 2
    t = {"test_name": rp["test_name"], "source": rp["test_source"], "check": rp["check"]}
    dev, o1 = native_replay(crate, rp["harness"], [t], log, False)
    rel, o2 = native_replay(crate, rp["harness"], [t], log, True)
    print("replay %s: dev reproduced=%s release reproduced=%s" % (rp["harness"], dev.get(t["test_name"]), rel.get(t["test_name"])))
    if dev.get(t["test_name"]) or rel.get(t["test_name"]):
        print("VIOLATION property=%s replay=%s" % (prop, path))
        return 1
    return 0


if __name__ == "__main__":
    sys.exit(main())
