#!/bin/bash
# usage: tools/seedtest.sh <seeded-dir> <Cxx> [--only <substr>]   (development helper, not a registered check)
# Applies seeded/<id>/patch.diff to /repo, runs the check with all harnesses (quick bounds), reverts.
set -u
d="$1"; prop="$2"; shift 2
cd /verif
if ! git -C /repo diff --quiet; then echo "/repo is dirty, refusing"; exit 3; fi
git -C /repo apply "$d/patch.diff" || { echo "patch does not apply"; exit 3; }
VERIF_ALL=1 ./check "$prop" --tier quick "$@" > "$d/check_output.txt" 2>&1
rc=$?
git -C /repo checkout -- .
echo "exit=$rc"; grep -E '^VIOLATION|^KNOWN|^INCONCLUSIVE|harnesses,' "$d/check_output.txt" | cut -c1-260
exit $rc
