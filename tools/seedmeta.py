#!/usr/bin/env python3
"""Merges the outcome of the check runs against a seeded change into seeded/<id>/meta.json."""
import glob, json, os, re, sys
V = os.path.dirname(os.path.dirname(os.path.abspath(__file__)))
confirm = {}
for l in open(os.path.join(V, "seeded", "CONFIRM.txt")):
    if "|" in l:
        confirm[l.split("|")[0].strip()] = " | ".join(x.strip() for x in l.split("|")[1:])
rows = []
for d in sorted(glob.glob(os.path.join(V, "seeded", "C*_m*"))):
    sid = os.path.basename(d)
    meta = json.load(open(os.path.join(d, "meta.json")))
    runs = []
    for f in sorted(glob.glob(os.path.join(V, ".work", "seed_%s_*.txt" % sid))):
        prop = f.rsplit("_", 1)[1][:-4]
        txt = open(f).read()
        summ = [l for l in txt.split("\n") if re.match(r"C\d\d (quick|thorough):", l)]
        viol = sorted({re.sub(r"__\w+\.json", "", l.split("replay=")[1].split("/")[-1]) for l in txt.split("\n") if l.startswith("VIOLATION")})
        inc = [l for l in txt.split("\n") if l.startswith("INCONCLUSIVE")]
        runs.append({"check": prop, "summary": summ[-1] if summ else "", "violations_in": viol, "inconclusive": len(inc)})
    meta["confirmed_in_scratch_worktree"] = confirm.get(sid, "")
    meta["checks_run"] = runs
    meta["detected"] = any(r["violations_in"] for r in runs)
    json.dump(meta, open(os.path.join(d, "meta.json"), "w"), indent=1)
    rows.append((sid, meta["property"], meta["detected"], "; ".join("%s: %s" % (r["check"], ",".join(r["violations_in"]) or "-") for r in runs), meta.get("needs", "")[:110]))
for r in rows:
    print("| %s | %s | %s | %s |" % (r[0], "caught" if r[2] else "MISSED", r[3], r[4]))
