#!/usr/bin/env python3
"""Re-reads /repo/src/push/*.rs and extracts the instruction registry:
for every `load_*_instructions` body the ordered list of (instruction name literal, function path).
A body containing any statement that is not `map.insert(String::from(<lit>), Instruction::new(<path>))`
makes the extraction fail loudly (the run becomes inconclusive, never silently smaller)."""
import json
import os
import re
import sys

REPO = os.environ.get("PUSHR_REPO", "/repo")
SRC = os.path.join(REPO, "src", "push")

MODULES = [
    # (file, load fn)
    ("boolean.rs", "load_boolean_instructions"),
    ("code.rs", "load_code_instructions"),
    ("execution.rs", "load_exec_instructions"),
    ("float.rs", "load_float_instructions"),
    ("index.rs", "load_index_instructions"),
    ("integer.rs", "load_int_instructions"),
    ("list.rs", "load_list_instructions"),
    ("name.rs", "load_name_instructions"),
    ("vector.rs", "load_vector_instructions"),
    ("io.rs", "load_io_instructions"),
    ("graph.rs", "load_graph_instructions"),
]


class ExtractError(Exception):
    pass


def strip_comments(text):
    out = []
    for line in text.split("\n"):
        # no string literal in these bodies contains "//"
        i = line.find("//")
        if i >= 0:
            line = line[:i]
        out.append(line)
    return "\n".join(out)


def fn_body(text, name):
    m = re.search(r"pub fn %s\s*\(\s*map\s*:\s*&mut HashMap<String,\s*Instruction>\s*\)\s*\{" % re.escape(name), text)
    if not m:
        raise ExtractError("load function %s not found" % name)
    i = m.end()
    depth = 1
    j = i
    while depth > 0:
        c = text[j]
        if c == "{":
            depth += 1
        elif c == "}":
            depth -= 1
        j += 1
    return text[i : j - 1]


INSERT_RE = re.compile(
    r"""^map\s*\.\s*insert\s*\(\s*String::from\(\s*"([^"]+)"\s*\)\s*,\s*Instruction::new\(\s*([A-Za-z_][A-Za-z0-9_:]*)\s*\)\s*,?\s*\)$""",
    re.S,
)


def registry():
    table = []
    for fname, load in MODULES:
        path = os.path.join(SRC, fname)
        text = open(path).read()
        body = strip_comments(fn_body(text, load))
        stmts = [s.strip() for s in body.split(";")]
        ord_ = 0
        for s in stmts:
            if not s:
                continue
            m = INSERT_RE.match(s)
            if not m:
                raise ExtractError("%s: unrecognised statement in %s: %r" % (fname, load, s[:120]))
            table.append({"name": m.group(1), "func": m.group(2), "module": fname[:-3], "load": load, "ord": ord_})
            ord_ += 1
    # later insert of the same name wins (HashMap semantics)
    last = {}
    for e in table:
        last[e["name"]] = e
    return table, last


def fn_source(module, func):
    """Source text of `fn func` in module (for static classification such as the Item-free set)."""
    text = open(os.path.join(SRC, module + ".rs")).read()
    m = re.search(r"fn %s\s*\(" % re.escape(func), text)
    if not m:
        return None
    i = text.find("{", m.end())
    depth = 1
    j = i + 1
    while depth > 0:
        c = text[j]
        if c == "{":
            depth += 1
        elif c == "}":
            depth -= 1
        j += 1
    return text[m.start() : j]


if __name__ == "__main__":
    try:
        t, last = registry()
    except ExtractError as e:
        print("EXTRACT-ERROR:", e)
        sys.exit(2)
    if len(sys.argv) > 1 and sys.argv[1] == "--json":
        print(json.dumps(t, indent=1))
    else:
        for e in t:
            print("%-28s %-34s %s #%d" % (e["name"], e["func"], e["load"], e["ord"]))
        print(len(t), "entries;", len(last), "distinct names")
