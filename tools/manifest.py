#!/usr/bin/env python3
"""Writes /verif/MANIFEST.json from the tables below (keeps the manifest valid and in one place)."""
import json
import os

VERIF = os.path.dirname(os.path.dirname(os.path.abspath(__file__)))

TECH = "bounded symbolic execution of the compiled Rust (Kani 0.68 -> CBMC 6.11, CaDiCaL SAT): UNSAT over all symbolic contents of the stated shapes, or a counterexample replayed natively"

BOUND = (" Bounds: operand stack depths 0..need+1, vector lengths 0..2, queue capacity 2; all depths and lengths are enumerated concretely, all "
         "contents are symbolic (every i32 / f32 bit pattern). The quick tier decides a seeded, stratified, cost-budgeted sample of the generated "
         "harnesses, the thorough tier all of them. Outside the bounds nothing is claimed.")
TRUST = ("Trusted: Kani 0.68 / CBMC 6.11 / CaDiCaL and rustc's MIR; the three registry stubs (RandomState::new fixed keys, Instruction::new closure "
         "wrapper, HashMap<String,Instruction>::insert association-list model) - every other line executed is /repo's current code; "
         "CBMC's own pointer/NaN instrumentation is off (no unsafe in pushr), Rust panics and unwinding assertions are on. ")

CLAIMED = {
    "C01": dict(
        text="Model checking (bounded), restricted: for every registered instruction whose body neither clones/drops an Item nor inserts into a HashMap (about 200 of 280 names; the list is recomputed from the source and printed in the evidence), ONE execution dispatched by name through the real registry from every bounded pre-state is shown free of Rust panics (overflow, bounds, unwrap, division, empty random range) by the SAT solver." + BOUND + " Not covered: interpreter glue (step/run over real programs), multi-step programs, generated programs, the Item-touching instructions, EXEC.CMD.",
        note=TRUST + "rand/names replaced by contract shims (every draw symbolic); size operands of ONES/ZEROS/RAND/SINE/FROMINT take the concrete values -1..3 here (magnitude is C15's subject); index operand of YANK/SHOVE/YANKDUP on CODE/EXEC/NAME/vector stacks takes a concrete value set.",
        ref="DESIGN.md section 4, C01"),
    "C02": dict(
        text="Model checking (bounded): the accounting code of the real PushInterpreter::run is checked against EVERY behaviour of a step: step is replaced by a nondeterministic stand-in (arbitrary growth 0..4, arbitrary completion flag), the clock by arbitrary non-decreasing instants; eval_push_limit in -1..1 (..3 thorough) one harness each, growth_cap 0..2 and eval_time_limit symbolic. Asserted: outcome vs. an independent accounting of the logged steps (NoErrors only after a completed step, StepLimitExceeded exactly after limit+1 steps, GrowthCapExceeded exactly when a step grew the state by more than the cap, TimeLimitExceeded only after the observed time passed the limit), never more than limit+1 steps, no step after the time limit, state changed only through steps. Plus the real step on an empty EXEC stack (completion, nothing changes) and run on an empty program.",
        note=TRUST + "Stubs in this check: PushInterpreter::step (stand-in), Instant::now / Instant::elapsed (symbolic clock), InstructionSet::cache (empty cache). Real programs cannot be stepped under CBMC (Item clone/drop): equivalence of run with k real steps on real programs and the EXEC->CODE copy of a non-empty program are NOT covered.",
        ref="DESIGN.md section 4, C02"),
    "C04": dict(
        text="Model checking (bounded): for each BOOLEAN.*, INTEGER.*, FLOAT.*, NAME.=, NAME.CAT and *.FROM* instruction, dispatched by name through the real registry, the post-state of one execution equals a reference model written from the documentation on every stack, for all operand values (all i32 / f32 bit patterns) and all operand-stack depths 0..need+1; when an operand is missing only already-taken operands may be consumed." + BOUND,
        note=TRUST + "Value left free where the statement allows it or CBMC's model is inexact: unrepresentable integer results, FLOAT.% SIN COS TAN EXP and FLOAT./ quotients (shape, operand consumption and zero-divisor guard still asserted). INTEGER./ and % semantic harnesses: operands in [-64,63]+{MIN,MAX} (no-panic harness: all i32). FLOAT.*: operands with <= 7 significant mantissa bits. Profile independence is decided as 'no reachable overflow/debug assertion' plus native replay in both profiles.",
        ref="DESIGN.md section 4, C04"),
    "C05": dict(
        text="Model checking (bounded): SWAP, ROT, YANK, SHOVE, STACKDEPTH on all nine stack types and DUP, YANKDUP, POP, FLUSH on the seven types whose items can be copied/dropped under CBMC, each dispatched by name, compared with ONE generic position map (index popped first, clamped, position 0 = top) for every stack depth 0..4 and every index." + BOUND,
        note=TRUST + "Index operand: any i32 on BOOLEAN/INTEGER/FLOAT; the concrete set {MIN,-1,0,1,depth-1,depth,MAX} on NAME/CODE/EXEC/vector stacks (Vec::remove/insert of large elements with a symbolic index exhausts CBMC). CODE/EXEC items are integer atoms with symbolic payload. DUP/YANKDUP/POP/FLUSH on CODE and EXEC clone or drop an Item: not covered.",
        ref="DESIGN.md section 4, C05"),
    "C09": dict(
        text="Model checking (bounded): every BOOLVECTOR/INTVECTOR/FLOATVECTOR instruction except DEFINE, RAND (C13) and INTVECTOR.LOOP, dispatched by name through the real registry (so a name bound to the wrong function is a counterexample), equals a reference model of the README overlap rule and the doc comments, for two vectors of independent lengths 0..2, every offset / index (any i32) and every element value." + BOUND,
        note=TRUST + "Left free: quotients of FLOATVECTOR./, values of SINE, order of a float sort containing NaN, elements whose exact integer result overflows. FLOATVECTOR.* / *SCALAR / MEAN: elements with <= 7 significant mantissa bits. Size operands of ONES/ZEROS/FROMINT/SINE take the concrete values -1..3.",
        ref="DESIGN.md section 4, C09"),
    "C10": dict(
        text="Model checking (bounded): for every instruction with a reference model (about 170 names), with every non-operand stack holding a symbolic bystander item: if an operand is missing or a guard fails, at most a top suffix of the operand stacks is consumed and nothing else changes (no push, binding, flag, queue or index change); if it applies, every stack outside the documented operand/result footprint is element-wise identical. All too-short patterns of the operand stacks (depth 0..need) are enumerated." + BOUND,
        note=TRUST + "The footprint is taken from the hand-written reference model (harness/src/spec.rs). Item-touching instructions (DEFINE family, GRAPH.*, most CODE/EXEC/LIST instructions) are not covered.",
        ref="DESIGN.md section 4, C10"),
    "C12": dict(
        text="Model checking (bounded), restricted to what CBMC can execute: decompose(n) for n = 1..6 yields positive parts summing to n for EVERY draw sequence; random_code_with_size(n) for n = 1, 2 has exactly n points and only documented leaf kinds (instruction from the supplied list, NOOP when it is empty; the three vector-literal arms are proved unreachable); random_code(max) returns nothing for max = 0, 1 without panicking and 1..max-1 points for max = 2; CODE.RAND through the registry with max-points 1, 2, -2 and ANY INTEGER operand (incl. i32::MIN) consumes its operand, never panics and never exceeds |n| nor the configured maximum.",
        note=TRUST + "rand shim: every draw symbolic under rand's range contract. Sizes >= 3 do not finish (the generated item's variant is symbolic and every by-reference walk forks on it): NOT covered. 'A currently bound name' needs a populated HashMap: not covered. Executability/printability of generated programs: not covered.",
        ref="DESIGN.md section 4, C12"),
    "C13": dict(
        text="Model checking (bounded): with every random draw a free variable constrained only by rand's documented contract, random_integer / random_float (any configured bounds), random_int_vector, random_float_vector, random_bool_vector (sizes -1..4 enumerated, all other parameters any value incl. NaN/inf) return exactly the documented Some/None, lengths, element ranges and TRUE-count (within the documented rounding), never panic and terminate; 'every position can become TRUE' is decided as an existential cover obligation per position; INTEGER/FLOAT/BOOLEAN/INTVECTOR/FLOATVECTOR/BOOLVECTOR.RAND through the registry pop their operands in the documented order and push only in-range results.",
        note=TRUST + "Shim contracts are part of the claim (DESIGN 3.4). Fairness cut: executions of BOOLVECTOR.RAND needing more than size+2 draws are not explored. NAME.RANDBOUNDNAME with a non-empty binding table needs a real HashMap: not covered. Distribution quality is not a safety property.",
        ref="DESIGN.md section 4, C13"),
    "C14": dict(
        text="Model checking (bounded), sequential single-step part only: (a) Node::new - the only code touching the process-wide counter - hands out strictly increasing ids over any 4 consecutive calls after 0..3 earlier calls; (b) for every Item-free, RAND-free instruction: executing it on two states with identical symbolic contents, with node-id allocation and a run of the same instruction on an unrelated, adversarially chosen state in between, yields identical post-states (no dependence on hidden process state such as a counter or an incompletely keyed cache).",
        note=TRUST + "Kani has no thread model: concurrent schedules, the CLI front end, whole-program reproducibility and HashMap iteration order are NOT covered.",
        ref="DESIGN.md section 4, C14"),
    "C15": dict(
        text="Model checking (bounded): for every Item-free instruction with an INTEGER/FLOAT operand, from every bounded state with integer operands anywhere in [-100000, 100000] (state size <= 9): every loop stays within the unwinding bound 10 and every resulting vector length is <= 9, every stack grows by <= 2. A violated length assertion yields the operand and is replayed natively; a violated unwinding assertion that does not show natively (only as time) is escalated to unwind 64 and reported as a solver-only verdict when the loop still does not terminate. CODE.RAND: the size handed to the generator is bounded by the configured maximum for every operand (generator replaced by a recorder).",
        note=TRUST + "Growth of CODE/EXEC items under DUP/LIST/APPEND/EXEC.Y and max_points_in_program (whole-program, Item) and LIST.NEIGHBOR* (symbolic execution of the nested scan does not finish) are NOT covered. The operand-sized allocations of ONES/ZEROS/*.RAND are genuine violations recorded in known_findings.json.",
        ref="DESIGN.md section 4, C15"),
    "C16": dict(
        text="Model checking (bounded): for every public PushStack<i32> method, one call from EVERY stack of length 0..4 (5 thorough) with arbitrary contents and arbitrary position/count arguments (any usize) is compared by the SAT solver with an array model (position 0 = top) - the inductive step covering histories of any length - plus seeded K-step operation sequences from the empty stack.",
        note="Trusted: Kani/CBMC translation of rustc MIR, CaDiCaL; the hand-written sequence model in harness/src/c16_stack.rs; <i32 as ToString>::to_string replaced by an injective 8-byte encoding in the equal_at harness only (core::fmt is out of CBMC's reach). Lengths and bulk counts are enumerated concretely; contents and positions are symbolic. Printing and element type Item are NOT covered.",
        ref="DESIGN.md section 4, C16"),
    "C17": dict(
        text="Model checking (bounded): PushBuffer<i32>, both kinds, capacity 1..3 (..4 thorough): every public method from EVERY valid internal representation (all (end,len) cursor combinations are reached by a driving prefix with symbolic parameters) equals a bounded-deque model, size never exceeds capacity; K-step symbolic operation sequences; INPUT.READ/GET/NEXT/AVAILABLE/STACKDEPTH and OUTPUT.WRITE/FLUSH/STACKDEPTH through the registry on queues of 0..2 messages with bodies of length 0..2 (FIFO consumption, program-order enqueue, clamped bit index, full queue contents compared).",
        note=TRUST + "PushBuffer::to_string (core::fmt) is NOT covered - by reading, it starts at slot `start` and prints a stale slot; that clause of the property is outside the claim.",
        ref="DESIGN.md section 4, C17"),
    "C20": dict(
        text="Model checking (bounded): decompose_index is a bijection for edge 1..4 x dimensions 1..3 and every index; find_neighbors for every ntotal 1..4 (..6 thorough), ndim 1..3, every centre and ANY f32 radius equals the brute-force set computed from exact integer squared distances in the smallest enclosing hypercube (which implies: contains the centre, ascending, no repeats, valid indices, symmetric, monotone in the radius); invalid centre / zero sizes give no neighbourhood; LIST.NEIGHBOR*IDS through the registry (size 0..4 and dimension operands concrete incl. negative / oversized, centre index any i32, radius any f32 incl. NaN) clamps as documented.",
        note=TRUST + "f32::powf is replaced by a lookup table generated on every run from the REAL libm for exactly the argument set of this domain (so the edge length is the one the shipped binary computes); sqrt is CBMC's. LIST.NEIGHBOR*{B,I,F}VALS read records through Item::find (clone): not covered.",
        ref="DESIGN.md section 4, C20"),
}

NA_COMMON = " Solver-based checking of the real code (Kani/CBMC) cannot encode it within reach; no other technique is substituted."
NOT_APPLICABLE = {
    "C03": "parse_program does not finish under CBMC even on a concrete 11-byte string (str::split_whitespace, str::parse::<f32>, Item drops); a hand model of the tokenizer would not be the real code." + NA_COMMON,
    "C06": "every combinator / loop instruction clones the body Item and the iteration counts are properties of multi-step runs of the real step(); cloning or dropping any Item (even a concrete one) does not finish under CBMC." + NA_COMMON,
    "C07": "bindings live in a real HashMap<String, Item> (insert/lookup = SipHash + hashbrown probing, replaced values are dropped Items) and lookup happens inside step()." + NA_COMMON,
    "C08": "the substance (EXTRACT/INSERT/POSITION/CONTAINER/SUBST/CAR/CDR/CONS/LIST/NTH/MEMBER/CONTAINS/=/DISCREPANCY, and even SIZE and ATOM) clones, drops, prints or recursively walks Items; Item::size on a 3-point tree did not finish in 300 s. Only CODE.LENGTH/NULL/APPEND are reachable and they are covered by C01/C10, not claimed as C08." + NA_COMMON,
    "C11": "both halves are core::fmt (Display of Item / PushStack::to_string) and the parser (see C03)." + NA_COMMON,
    "C18": "every graph operation is a real HashMap<usize,_> insert/remove/iterate (two add_node calls exceed 400 s); the textual diff is core::fmt." + NA_COMMON,
    "C19": "LIST.GET/SET/REMOVE/BVAL/IVAL/FVAL clone or drop Items; LIST.ADD alone was built but does not finish (the record's element variants are symbolic and every inspection forks on them; 400 s timeout even for an empty id vector)." + NA_COMMON,
}


def main():
    checks = []
    for pid in sorted(CLAIMED):
        c = CLAIMED[pid]
        checks.append({
            "property_id": pid,
            "quick_cmd": "./check %s --tier quick" % pid,
            "thorough_cmd": "./check %s --tier thorough" % pid,
            "evidence_file": "/verif/evidence/%s.json" % pid,
            "replay_cmd_template": "./check %s --replay {path}" % pid,
            "engine": "kani-cbmc",
            "level_claimed": {"category": "model_checking", "text": c["text"], "design_ref": c["ref"]},
            "level_note": c["note"],
            "technique": TECH,
        })
    m = {
        "version": 1,
        "setup_cmd": "true",
        "hooks": {
            "guard": "pushr_verif",
            "enable": "no source hooks are needed: harnesses live in an out-of-tree crate (/verif/harness) with a path dependency on /repo, private functions are reached through the real registry, rand/names through [patch.crates-io] shims",
            "baseline_off_cmd": "cd /repo && cargo test --workspace --no-fail-fast --offline",
            "source_commits": [],
            "add_only": True,
        },
        "engines": [{
            "name": "kani-cbmc",
            "path": "/verif/tools/run.py",
            "serves_properties": sorted(CLAIMED),
            "kind_free_text": "Kani 0.68.0 bounded model checker (CBMC 6.11.0 + CaDiCaL) over harnesses regenerated from /repo's current sources by tools/gen.py on every run; counterexamples replayed natively with cargo kani playback (dev and release settings)",
        }],
        "checks": checks,
        "not_applicable": [{"property_id": k, "reason": v} for k, v in sorted(NOT_APPLICABLE.items())],
        "notes": "Exit codes of ./check: 0 held (KNOWN-FINDING lines possible), 1 VIOLATION (replayed natively), 2 inconclusive (timeout/OOM/tool error/vacuous harness/non-reproducing counterexample). See DESIGN.md.",
    }
    json.dump(m, open(os.path.join(VERIF, "MANIFEST.json"), "w"), indent=1)
    print("MANIFEST.json: %d checks, %d not applicable" % (len(checks), len(NOT_APPLICABLE)))


if __name__ == "__main__":
    main()
