#!/usr/bin/env python3
"""Writes /verif/MANIFEST.json from the tables below (keeps the manifest valid and in one place)."""
import json
import os

VERIF = os.path.dirname(os.path.dirname(os.path.abspath(__file__)))

TECH = "bounded symbolic execution of the compiled Rust (Kani 0.68 -> CBMC 6.11, CaDiCaL SAT): UNSAT over all symbolic contents of the stated shapes, or a counterexample replayed natively"

CLAIMED = {
    "C16": dict(
        text="Model checking (bounded): for every public PushStack<i32> method, one call from EVERY stack of length 0..4 (5 thorough) with arbitrary contents and arbitrary position/count arguments (any usize) is compared by the SAT solver with an array model (position 0 = top) - the inductive step covering histories of any length - plus seeded K-step operation sequences from the empty stack. Printing (core::fmt) and element type Item are outside the claim.",
        note="Trusted: Kani/CBMC translation of rustc MIR, CaDiCaL; the hand-written sequence model in harness/src/c16_stack.rs; <i32 as ToString>::to_string replaced by an injective 8-byte encoding in the equal_at harness only (core::fmt is out of CBMC's reach). Lengths are enumerated concretely (a symbolic Vec length makes CBMC's memmove model explode); contents and positions are symbolic.",
        ref="DESIGN.md section 4, C16",
    ),
}

NOT_APPLICABLE = {}


def main():
    checks = []
    for pid in sorted(CLAIMED):
        c = CLAIMED[pid]
        checks.append({
            "property_id": pid,
            "quick_cmd": "./check %s --tier quick" % pid,
            "thorough_cmd": "./check %s --tier thorough" % pid,
            "evidence_file": "/verif/evidence/%s.json" % pid,
            "replay_cmd_template": "./check %s --replay {path}" % pid,
            "engine": "kani-cbmc",
            "level_claimed": {"category": "model_checking", "text": c["text"], "design_ref": c["ref"]},
            "level_note": c["note"],
            "technique": TECH,
        })
    m = {
        "version": 1,
        "setup_cmd": "true",
        "hooks": {
            "guard": "pushr_verif",
            "enable": "no source hooks are needed: harnesses live in an out-of-tree crate (/verif/harness) with a path dependency on /repo, private functions are reached through the real registry, rand/names through [patch.crates-io] shims",
            "baseline_off_cmd": "cd /repo && cargo test --workspace --no-fail-fast --offline",
            "source_commits": [],
            "add_only": True,
        },
        "engines": [{
            "name": "kani-cbmc",
            "path": "/verif/tools/run.py",
            "serves_properties": sorted(CLAIMED),
            "kind_free_text": "Kani 0.68.0 bounded model checker (CBMC 6.11.0 + CaDiCaL) over harnesses regenerated from /repo's current sources by tools/gen.py on every run; counterexamples replayed natively with cargo kani playback (dev and release settings)",
        }],
        "checks": checks,
        "not_applicable": [{"property_id": k, "reason": v} for k, v in sorted(NOT_APPLICABLE.items())],
        "notes": "Exit codes of ./check: 0 held (KNOWN-FINDING lines possible), 1 VIOLATION (replayed natively), 2 inconclusive (timeout/OOM/tool error/vacuous harness/non-reproducing counterexample). See DESIGN.md.",
    }
    json.dump(m, open(os.path.join(VERIF, "MANIFEST.json"), "w"), indent=1)
    print("MANIFEST.json: %d checks, %d not applicable" % (len(checks), len(NOT_APPLICABLE)))


if __name__ == "__main__":
    main()
